#!/venv/bin/python
"""mkmutant.py NAME FILE OLD NEW [COUNT]: writes selftest/mutants/NAME.patch (unified diff vs /repo working tree)."""
import sys, difflib, os
name, path, old, new = sys.argv[1:5]
count = int(sys.argv[5]) if len(sys.argv) > 5 else 1
old = old.encode().decode('unicode_escape'); new = new.encode().decode('unicode_escape')
src = open(os.path.join('/repo', path)).read()
assert src.count(old) >= 1, f"pattern not found in {path}"
if count == 1:
    assert src.count(old) == 1, f"pattern occurs {src.count(old)} times"
mut = src.replace(old, new) if count == 0 else src.replace(old, new, count)
d = difflib.unified_diff(src.splitlines(True), mut.splitlines(True), 'a/' + path, 'b/' + path)
out = os.path.join(os.path.dirname(os.path.abspath(__file__)), 'mutants', name + '.patch')
open(out, 'w').writelines(d)
print(out)
