#!/bin/bash
# usage: run_all.sh [tier] [seed]   - runs every registered check, prints one line per property
cd "$(dirname "$0")/.."
tier=${1:-quick}; seed=${2:-1}
for id in $(/venv/bin/python -c "import json; print(' '.join(c['property_id'] for c in json.load(open('MANIFEST.json'))['checks']))"); do
  start=$(date +%s)
  out=$(VERIF_SEED=$seed ./vcheck $id --tier $tier 2>&1); rc=$?
  echo "$id rc=$rc $(( $(date +%s) - start ))s :: $(echo "$out" | grep "^\[$id\]" | cut -c1-170)"
  echo "$out" | grep "^VIOLATION\|HARNESS-ERROR" | head -5
done
