#!/bin/bash
# usage: run_mutant.sh <patch-file | revert:<commit>> <ID> [vcheck args...]
# Applies a patch to a scratch copy of /repo's working tree (never to /repo itself), runs
# the check against the copy via VP_REPO_ROOT, prints the exit status, removes the copy.
set -u
here="$(cd "$(dirname "${BASH_SOURCE[0]}")/.." && pwd)"
patch="$1"; id="$2"; shift 2
if [[ "$patch" != revert:* ]]; then patch="$(realpath "$patch")"; fi
tmp=$(mktemp -d /var/tmp/vp_mut_XXXXXX)
trap 'rm -rf "$tmp"' EXIT
rsync -a --exclude .git --exclude '__pycache__' --exclude docs --exclude examples /repo/ "$tmp/"
if [[ "$patch" == revert:* ]]; then
  git -C /repo show "${patch#revert:}" -- virocon | (cd "$tmp" && patch -R -p1 -s) || { echo "MUTANT-APPLY-FAILED"; exit 3; }
else
  (cd "$tmp" && patch -p1 -s < "$patch") || { echo "MUTANT-APPLY-FAILED"; exit 3; }
fi
VP_REPO_ROOT="$tmp" VP_NO_EVIDENCE=1 VP_REPLAY_DIR="$tmp/replays" "$here/vcheck" "$id" "$@" 2>&1 | grep -E "^(VIOLATION|KNOWN-FINDING|\[C|HARNESS)" | head -12
rc=${PIPESTATUS[0]}
echo "MUTANT $(basename "$patch") on $id -> exit $rc"
exit $rc
