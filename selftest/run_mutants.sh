#!/bin/bash
# usage: run_mutants.sh [name-filter]   - runs every selftest/mutants/<cNN>_*.patch against its property's quick check
# prints one line per mutant; summary of survivors / apply failures at the end
here="$(cd "$(dirname "${BASH_SOURCE[0]}")/.." && pwd)"
filter="${1:-}"
surv=(); fail=()
for p in "$here"/selftest/mutants/*.patch; do
  n=$(basename "$p")
  [[ -n "$filter" && "$n" != *$filter* ]] && continue
  id=$(echo "${n:0:3}" | tr c C)
  out=$("$here/selftest/run_mutant.sh" "$p" "$id" 2>&1 | tail -1)
  echo "$out"
  [[ "$out" == *"exit 0"* ]] && surv+=("$n")
  [[ "$out" == *"APPLY-FAILED"* || "$out" == *"exit 2"* || "$out" == *"exit 3"* ]] && fail+=("$n")
done
echo "SURVIVED: ${surv[*]:-none}"
echo "FAILED-TO-APPLY-OR-HARNESS-ERROR: ${fail[*]:-none}"
