#!/bin/bash
# usage: run_seeds.sh <tier> "<seed list>" <ID>...   - the given checks at several seeds
cd "$(dirname "$0")/.."
tier=$1; seeds=$2; shift 2
for s in $seeds; do selftest/run_some.sh $tier $s "$@"; done
