#!/bin/bash
# usage: run_some.sh <tier> <seed> <ID>...
cd "$(dirname "$0")/.."
tier=$1; seed=$2; shift 2
for id in "$@"; do
  start=$(date +%s)
  out=$(VERIF_SEED=$seed ./vcheck $id --tier $tier 2>&1); rc=$?
  echo "$id rc=$rc $(( $(date +%s) - start ))s :: $(echo "$out" | grep "^\[$id\]" | cut -c1-170)"
  echo "$out" | grep -A1 "^VIOLATION\|HARNESS-ERROR" | cut -c1-400 | head -12
done
