#!/venv/bin/python
"""Regenerates MANIFEST.json from the table below (single source of truth for registered checks)."""
import json, os

HERE = os.path.dirname(os.path.abspath(__file__))
REPO_FIX_COMMITS = []

CHECKS = {
    "C05": dict(
        technique="property-based testing (Hypothesis): independent closed-form reference + round-trip + explicit-vs-constructed differential",
        text="Generated-input search over every shipped family (7 native + 5 ScipyDistribution subclasses), parameters over several decades, "
             "quantile levels 1e-12..1-1e-12 and argument forms; oracle = documented formula coded independently, mutual consistency "
             "(monotone, limits, icdf/cdf round trips, integral of pdf = cdf difference) and explicit-parameter == constructed-instance for every "
             "parameter subset and method (explicit values also integer-typed); pdf exactly on the support boundary is a non-negative number. Exploration: absence of violations on ~2e4 (quick) / ~4.5e5 (thorough) cases, not a proof.",
        note="Trusts scipy.special as reference arithmetic; ScipyDistribution subclasses are compared with the named scipy.stats law (their documented meaning); "
             "von Mises cdf tolerance 1e-5 for kappa>=50 (scipy's own normal approximation).",
        design="7/C05",
    ),
}
CHECKS["C01"] = dict(
    technique="property-based testing (Hypothesis): Rosenblatt round-trip through the model's own cdf + differential against an independent reference inverse-Rosenblatt of the spec",
    text="Generated hierarchical models (n_dim 2-4, all conditional_on structures, 7 native families + scipy subclasses as marginals, constructed dependence "
         "shapes incl. chained), alpha in [1e-8,0.5], n_points 3-200, both IFORM and ISORM. Every contour point is mapped back through the model's own "
         "(conditional) cdf one point at a time and must land on the beta-sphere coordinate it came from (1e-6 in u-space or representability bracket); "
         "beta, sphere norms, 2-D equally spaced angles / n-D distinct directions, (n_points, n_dim) shape, reference inverse-Rosenblatt agreement and the "
         "2-D marginal-quantile identity are asserted. Exploration level.",
    note="Component cdf/icdf correctness is C05/C08's business; parameters in metocean-plausible sub-ranges; n-D up to 60 (quick) / 200 (thorough) points.",
    design="7/C01",
)
CHECKS["C08"] = dict(
    technique="property-based testing (Hypothesis): differential against a freshly constructed template instance whose parameters come from the harness' own evaluation of the dependence spec",
    text="Generated (template family x dependent-parameter subset x constructed dependence shapes incl. chained and default-valued signatures x conditioning "
         "values x quantile levels x seeds). pdf/cdf/icdf of the ConditionalDistribution in the IFORM (vector,vector), ISORM (scalar,scalar) and HDC (vector,scalar / 0-d) "
         "call forms equal the template built with the reference parameter values; vectorised equals one-at-a-time; fixed parameters are constant in g; seeded samples "
         "(scalar and vector given) equal the template's; integer-typed conditioning values (int, np.int64, int arrays) give the numbers of the float form for pdf/cdf/icdf and seeded samples; von Mises mean directions beyond one period; evaluate - change coefficients - evaluate histories. Exploration level.",
    note="Template methods with constructed parameters are the reference (C05 decides their formulas); tolerance 1e-9 vs reference, 1e-10 vector-vs-scalar.",
    design="7/C08",
)
CHECKS["C07"] = dict(
    technique="property-based testing (Hypothesis): probability-integral / Rosenblatt transform of generated samples judged by distribution-free DKW and Hoeffding bounds; seeding metamorphic relations",
    text="Generated families (12) and 2-4-D hierarchical models with all dependence structures; sample sizes 1..2e5 (quick) / 1e6 (thorough); random_state None/int/Generator. "
         "The harness' own Rosenblatt transform (from the spec) of each sample must be uniform (DKW, error prob 1e-12), also on the halves split at the conditioner's median, "
         "and pairwise independent; shapes, support and all seeding relations are asserted; joint samples of 250000 .. 1e6 rows (both tiers) must not repeat rows (distinct-row count against the harness' own reference sample). Exploration level; statistical statements hold up to the DKW resolution at the drawn n.",
    note="Reference cdfs from vp/oracles/formulas.py (decided against virocon by C05); von Mises compared modulo 2 pi against a quadrature table.",
    design="7/C07",
)
CHECKS["C06"] = dict(
    technique="property-based testing (Hypothesis): differential against an independent closed-form product of conditional densities and against nested 1-D quadrature over the ancestor chain (conditional cdfs); Beta order-statistic bound for the Monte-Carlo quantile",
    text="Generated 2-4-D hierarchical models over the non-negative families with every conditional_on structure; points in bulk and tails; row/list/array/integer input forms. "
         "model.pdf equals the reference factorisation (rtol 1e-9) and integrates to 1 (nested Gauss-Legendre, 1e-6); model.cdf, marginal_pdf and marginal_cdf equal ancestor-chain "
         "quadrature references that use the conditional cdf/pdf formulas rather than nquad of the joint pdf; marginal_icdf is exact for unconditional variables and within the "
         "order-statistic Beta interval otherwise (called without random_state and with int seeds incl. 0 and 1); a cheap 3-D cdf slice (chain / star models of smooth Weibull levels) runs in the quick tier. Exploration; the number of cdf/marginal points is bounded by the implementation's own cost (seconds to minutes per point).",
    note="Reference formulas decided by C05; bounded dependence shapes only (virocon integrates to infinity, parameters must stay admissible for every x>=0); 3-D cdf only in the thorough tier.",
    design="7/C06",
)
CHECKS["C10"] = dict(
    technique="exhaustive enumeration of a finite lattice domain plus property-based testing (Hypothesis) of long random vectors against a reference model of the documented slicing semantics",
    text="Exhaustive: every data vector of length <= 3 (quick) / <= 4 and a length-5 sub-lattice (thorough) over edge-hitting lattices for widths 1, 0.5, 0.1, 0.3, 0.7, in all orders, "
         "times the full option product of WidthOfIntervalSlicer, NumberOfIntervalsSlicer and PointsPerIntervalSlicer (millions of slicer calls). Random: vectors of 50-20000 rounded, tied, "
         "shuffled values with generated options. Oracle: exactly-one membership inside the covered range, mask alignment with input positions (order equivariance), members within non-overlapping "
         "contiguous boundaries, documented references, drop rule == filtering of the unfiltered result, RuntimeError iff too few intervals, documented PPI blocks and midpoint boundaries; history: a slicer instance that sliced other (calmer / wilder / lower-half) data before gives exactly what a fresh slicer gives.",
    note="Assignment of a value within 1e-9*width of an interior edge to either neighbour is accepted (not fixed by the property); exhaustive only over the stated lattice.",
    design="7/C10",
)
CHECKS["C11"] = dict(
    technique="property-based testing (Hypothesis) over an enumerated configuration lattice (family x fixed-parameter subset x fit method) with generated values and data; invariant oracle on the fixed values",
    text="All 56 non-empty proper fixed-parameter subsets of the 12 families (plus lsq/wlsq for the exponentiated Weibull) with generated fixed values, start values and data from the "
         "same or another family: fixed value present in parameters and f_<name> from construction, evaluation identical to an instance constructed with the value, fit succeeds (only the "
         "documented NotImplementedError for unsupported least-squares subsets), fixed value unchanged to 1e-12 after fit and re-fit (also 0 / 1 boundary values, von Mises mean directions beyond pi, a fixed location inside the data), free parameters finite/admissible/estimated (an MLE fit does not end below the likelihood of its start; for LogNormal / Normal with one free parameter a 20 % move of it gains nothing); "
         "ConditionalDistribution: fixed parameter constant in g (float, int, numpy-int scalars and arrays) before and after fitting, per-interval estimates keep it, template untouched.",
    note="Fixed location-like values are generated below the data in three quarters of the cases; 'estimated' is only asserted when the start values give the data a finite likelihood.",
    design="7/C11",
)
CHECKS["C13"] = dict(
    technique="property-based testing (Hypothesis): differential against an independent numpy.linalg.lstsq weighted regression of the documented linearised quantile relation + metamorphic relations (weight scaling, joint permutation, keyword == array)",
    text="Generated positive samples (30-5000, four source laws, ties, appended zeros), every weight specification (None, keywords in any case, positive arrays, scaled arrays), delta fixed or free, "
         "lsq and wlsq, sorted / shuffled input. alpha and beta must equal the reference regression at the delta in force (rtol 1e-8); results invariant under w -> k*w and under joint permutation; "
         "keyword weights equal their x^k arrays; a free delta is a local minimiser of the harness' x-space weighted error.",
    note="Local optimality of a free delta is only judged where (0.5/n)^(1/delta) >= 1e-10 (computable plotting-position transform); fmin's own tolerance bounds delta.",
    design="7/C13",
)
CHECKS["C12"] = dict(
    technique="property-based testing (Hypothesis): likelihood-dominance oracle (fit vs start vs generating parameters) and scale metamorphic relation; statistical known findings guarded by incidence limits",
    text="Generated (family, regular generating parameters, n 100-5000, seed, default or user start, scale factor). The harness' log-likelihood of the data under the fitted instance must not be "
         "below the start nor the generating parameters (tolerance 1e-6|ll|+1e-2); parameters finite and admissible; c*data must give c-scaled location/scale estimates (parameter-wise for "
         "Normal, LogNormal, LogNormalNormFit, 2-parameter Weibull; through the fitted law for ridge families in the regular MLE regime). a second fit of the same data must not lose likelihood. Families: 8 native ones incl. 2-parameter Weibull, "
         "scipy-declared gamma, Gumbel, Rayleigh and genextreme. Five recorded known findings (optimiser stall of 3-parameter Weibull / scipy-declared laws with a free location or parameter-dependent support / "
         "far user starts of the generalised gamma and exponentiated Weibull; LogNormalNormFit is a moment estimator; support excluding observations) are reported as KNOWN-FINDING and their incidence is bounded (RATE_LIMITS).",
    note="Says nothing about global optimality beyond the alternatives tried; equivariance of location-free families only where shape >= 1.2 (bounded likelihood).",
    design="7/C12",
)
CHECKS["C14"] = dict(
    technique="property-based testing (Hypothesis): invariant oracles (bounds, constraints, objective dominance over start and 64 admissible perturbations, numpy lstsq for linear shapes) and generated fit histories compared with a dependency-order reference",
    text="Single fits: generated shape, data, bounds of all kinds (none, one-/two-sided, active lower, active upper, active at exactly 0 with the other side None), inequality constraints (dict/list, active/inactive), optional weights callable and start values; fitted parameters must respect bounds "
         "and constraints and be no worse than the start or nearby admissible points for the harness' own (weighted) squared residual; linear shapes must reach the numpy least-squares objective. "
         "Histories: chains of 2-3 dependence functions declared in any order and fitted once per round in any order for 1-3 rounds; final parameters equal fresh copies fitted in dependency order. "
         "Three recorded known findings (inverse weighting via curve_fit sigma; re-fit start values depend on call order on multi-modal objectives; SLSQP stalls / returns start values) with incidence limits.",
    note="Objective tolerances reflect curve_fit's absolute gradient tolerance and SLSQP's absolute ftol; perturbation optimality is necessary, not global optimality.",
    design="7/C14",
)
CHECKS["C09"] = dict(
    technique="property-based testing (Hypothesis): metamorphic relation (row permutation, also after a preceding fit) plus differential oracles against stand-alone fits, the slicer applied by the harness and a fresh dependence-function fit",
    text="Generated truth models (2-D, 3-D chain/star), data 300-20000 rows drawn by the harness' inverse Rosenblatt transform (sorted / shuffled / rounded), to-be-fitted models with all three slicers "
         "and per-dimension fit descriptions (MLE, EW lsq/wlsq) that differ between dimensions; first fit and re-fit. fit(data) and fit(permuted data) must agree in marginal parameters, interval "
         "observations (as multisets), per-interval estimates and dependence parameters; data_intervals must be exactly the slicer's rows inside the reported boundaries; per-interval estimates equal "
         "a stand-alone fit with that dimension's own method/weights; dependence parameters equal a fresh function fitted to (reference, estimate). One known finding (PointsPerInterval cuts through ties).",
    note="Optimiser noise tolerances 1e-4 (1e-9 for closed-form families); documented RuntimeErrors must occur for both row orders alike.",
    design="7/C09",
)
CHECKS["C02"] = dict(
    technique="property-based testing (Hypothesis): validity predicate on the region reconstructed from public outputs with independently computed cell probabilities; differential for the cell-averaged pdf; model-free properties of the public cumsum helper",
    text="Generated 2-D/3-D models, alpha in [1e-6,0.3], explicit/default limits (reachable and not reachable), scalar / per-dimension / anisotropic deltas, float- and all-integer-typed grids, 10-400 cells per axis. Region = cells with "
         "density >= fm (tolerance set for ties), cell probabilities = products of conditional cdf differences computed by the harness from the spec: content <= 1-alpha and within one (densest excluded) "
         "cell of it, fm is a cell density, RuntimeWarning iff the grid holds < 1-alpha (then whole grid, fm=0), grid built from limits/deltas as documented, cell_averaged_joint_pdf equals the harness "
         "probabilities. cumsum_biggest_until: selected sum <= limit, maximal, selected >= unselected, last_summed, warning, input untouched, on random arrays with ties.",
    note="Reference cdfs decided by C05; default limits only for alpha >= 1e-3/1e-4 and 3-D grids <= 36^3/80^3 cells (memory bound of the implementation).",
    design="7/C02",
)
CHECKS["C15"] = dict(
    technique="property-based testing (Hypothesis): set-equality oracle between returned coordinates and the harness' own boundary-cell computation on the reconstructed region; permutation oracle for the line sorter",
    text="Same generator as C02. Boundary cells of the reconstructed region (3^n-1 neighbourhood, grid border = outside, computed with shifted padded views, no scipy.ndimage) must equal the returned "
         "coordinates as multisets (each once), a single 2-D component in sorter order as one (N,2) array, several components as the connected components. The sorter itself must return a permutation "
         "of arbitrary planar point sets (polygons, ellipses up to aspect 20, lattice rings with unequal spacing, clusters, random clouds) for both search_for_optimal_start values.",
    note="Exact ties at the threshold that cannot all be enclosed are skipped for the boundary comparison (counted); regions with holes: union only.",
    design="7/C15",
)
CHECKS["C03"] = dict(
    technique="property-based testing (Hypothesis): validity predicate on every polygon edge (quantile bracket of the projected sample on a direction grid) computed from coordinates and sample only",
    text="Generated 2-D samples (model samples via the harness' inverse Rosenblatt; cluster mixtures, heavy tails, integer lattices with ties (float- and integer-typed arrays), nearly collinear clouds; 50-50000 points), alpha in "
         "[1e-4,0.3], all 19 divisors of 360 in [1,60] plus 5 fractional steps; and sample=None. Exactly 360/deg_step vertices; a single phase and rotation sense exist such that every edge incl. the "
         "closing one lies on the tangent line of its grid direction with offset between the (k-1)th and (k+1)th order statistic, k=ceil((1-alpha)N); sample untouched; int(100/alpha) points drawn without sample.",
    note="Tolerance 1e-9*max|sample|; the quantile definition is left open (bracket of neighbouring order statistics).",
    design="7/C03",
)
CHECKS["C04"] = dict(
    technique="property-based testing (Hypothesis): validity predicate per contour point computed from coordinates and sample only (ray angle, empirical AND/OR exceedance, closure, range filter), with the documented precision warning as exemption",
    text="Generated non-negative 2-D models and samples (200-30000 points, optional rounding), alpha in [1e-3,0.2], deg_step 1-30, allowed_error 0.005-0.2, OR theta ranges around the sample diagonal. "
         "Without the precision warning every searched point must lie on its ray and have empirical AND/OR exceedance within allowed_error*alpha of alpha (strict >); with the warning the same is "
         "required on rays where the search provably can succeed (crossing outside the search's blind zone, neighbouring levels inside the tolerance band). Closure rows as documented, OR points a "
         "theta-ordered subsequence inside 1.1*max, dropped rays leave the range above alpha(1-allowed_error), coordinates a float array, sample untouched.",
    note="About 40 % of generated cases carry the documented precision warning (measured, class histogram in the evidence); marginal_icdf's Monte-Carlo uses the harness-seeded global RNG.",
    design="7/C04",
)
CHECKS["C17"] = dict(
    technique="property-based testing (Hypothesis): differential against exact rational (fractions.Fraction) polygon / segment arithmetic",
    text="Design conditions: IFORM/ISORM/direct-sampling contours of generated 2-D models (incl. negative ordinates) and random star-shaped non-convex polygons (5-60 vertices), steps None/int/explicit "
         "lists partly outside the range, both swap_axis values: every returned row must be (requested abscissa, largest exact crossing ordinate), abscissae without crossing omitted, order kept, default "
         "steps as documented, swap_axis equivalent to exchanging columns, contour untouched. intersection(): random polyline pairs (walks, graphs, loops; 2-40 segments) in general position must return "
         "exactly the exact crossing set. Long contours (parts design_large / intersection_large): polygons, IFORM contours and polylines of 100-1500 vertices (incl. 255..258, 511..513, 720, 1024, 1025) probed inside individual edges, among them the edges around every multiple of 64 (block borders of chunked searches); exact arithmetic only for the edges a float pre-filter selects.",
    note="General position by construction (abscissae never on a vertex; no shared vertices / collinear overlaps); tolerance 1e-9 of the extent.",
    design="7/C17",
)
CHECKS["C18"] = dict(
    category="fault_enumeration",
    technique="exhaustive fault injection over a catalogue of malformations x positions x structures x carrier families (generated-case search with a 'must raise, no result' oracle and an accepted-control group)",
    text="Every catalogue entry of the property (14 model/fit fault kinds with variants, incl. one-dimensional data for models of >= 2 variables, HDC limits/deltas malformations, non-finite evaluation points, 1-D/3-D models for the 2-D-only contours, "
         "non-models for IFORM, unknown slicer keywords / references, too few intervals) is injected at every dimension of valid 1-4-dimensional descriptions (9 structures, 7 carrier families), "
         "singly (exhaustive) and in pairs within a stage (thorough: exhaustive; quick: every 7th). The call where the malformed item is supplied (first use for lazily interpreted options) must raise "
         "and produce no object; the unmodified description must be accepted.",
    note="Only rejection is asserted; an exception type other than the documented ones is recorded as a note. Two catalogue entries are rejected by a later statement rather than by their own guard (longer HDC limits, 3-D model for direct sampling), which the property allows.",
    design="7/C18",
)
CHECKS["C20"] = dict(
    technique="property-based testing (Hypothesis): round trip (write -> parse, synthetic file -> DataFrame) and read-back of the data held by matplotlib artists on a real Agg Axes (recording wrapper for Axes.contour)",
    text="save_contour_coordinates: generated 2-D/3-D coordinate arrays and all six contour classes, semantics incl. ';', unicode, '$..$', paths with/without extension and dotted directories: file at the "
         "expected path, header, N rows in order, ';' delimiter, values within 0.5e-6. plot_2D_contour: closed polyline == coordinates (+first point, axes exchanged iff swap_axis), sample and design-condition "
         "scatters as supplied / computed, return value. plot_dependence_functions, plot_histograms_of_interval_distributions, plot_2D_isodensity (grid Z == model.pdf at the plotted node, limits, levels, "
         "sample scatter) and plot_marginal_quantiles on fitted models. read_ec_benchmark_dataset: all rows in order, values, DatetimeIndex, column names for synthetic files of 1-10000 rows.",
    note="The artists' data are the observation point (Agg backend); theoretical quantiles compared for unconditional dimensions.",
    design="7/C20",
)
CHECKS["C19"] = dict(
    technique="model-based history generation with Hypothesis (operation sequences with generated arguments that shrink as one value) and snapshot invariants after every step",
    text="Pool of live models (generated 2-D and 3-D models, a fitted model from one of the six predefined getters incl. the two TransformedModels) and histories of <= 6 (quick) / <= 10 (thorough) operations "
         "out of 17 evaluation / contour / plotting / saving entry points and 4 fitting operations. After every step: deep structural snapshots of all models not being fitted are unchanged, caller-owned "
         "arrays (handed over read-only) are bit-identical, every deterministic operation executed twice returns identical results, ConditionalDistribution.fit leaves its template untouched and uses distinct "
         "per-interval copies, two calls of a predefined getter share no mutable object and fitting one leaves the other unchanged. Seeded TransformedModels are evaluated the way IFORMContour does (IFORM contour, marginal_icdf with model.random_state); snapshots include the state of numpy Generators stored in a model; HDC limits / deltas are handed over as caller-owned lists / arrays and compared with a deep copy; a direct-sampling contour of a supplied sample is repeated under another global RNG state.",
    note="Bounded history length; Monte-Carlo operations without a seed argument are made deterministic by seeding numpy's global RNG before the call; repeatability judged at rtol 1e-10 (numpy SIMD last-bit nondeterminism).",
    design="7/C19",
)
CHECKS["C16"] = dict(
    technique="property-based testing (Hypothesis): round trips, finite-difference differential for the Jacobian, differential against an independently derived push-forward density, and distribution-free (DKW / Beta order-statistic / Hoeffding) bounds for every Monte-Carlo quantity against the exact conditional law",
    text="Six closed-form transformations and the two predefined (transform, inverse, jacobian) triples over (1e-3,1e2)^4; Windmeier / non-zero EW Hs-steepness structures with generated coefficients: "
         "TransformedModel.pdf == f_hs(h) f_S(c h/t^2|h) 2 c h/t^3 and integrates to 1, cdf == exact 1-D integral, empirical_cdf within Hoeffding, draw_sample == inverse(base sample) under the same seed (global RNG and int random_state incl. 0 and 1; the seeded sample is reproducible and its joint cdf matches the exact push-forward cdf within Hoeffding); "
         "conditional_sample / conditional_cdf / conditional_icdf of Tz|Hs and Hs|Tz at conditioning quantiles 0.002 .. 1-1e-5 against the exact conditional law incl. tail mass beyond the extreme draws; "
         "IFORM contours of the transformed model inside order-statistic intervals in probability space and bit-reproducible under random_state.",
    note="IFORM cases bounded to alpha >= 1e-3, precision_factor <= 0.3, 8 (quick) / 64 (thorough) contours - a resource bound of the implementation (up to 1e7 uniforms per point).",
    design="7/C16",
)
NOT_YET = {}

def main():
    props = [json.loads(l) for l in open(os.path.join(HERE, "properties.jsonl"))]
    checks = []
    na = []
    for p in props:
        pid = p["id"]
        if pid in CHECKS:
            c = CHECKS[pid]
            checks.append(dict(
                property_id=pid,
                quick_cmd=f"./vcheck {pid} --tier quick",
                thorough_cmd=f"./vcheck {pid} --tier thorough",
                evidence_file=f"/verif/evidence/{pid}.json",
                replay_cmd_template=f"./vcheck {pid} --replay {{path}}",
                engine="vp",
                level_claimed=dict(category=c.get("category", "exploration"), text=c["text"], design_ref=f"DESIGN.md section {c['design']}"),
                level_note=c["note"],
                technique=c["technique"],
            ))
        else:
            na.append(dict(property_id=pid, reason=NOT_YET.get(pid, "check not built yet in this session (planned in DESIGN.md section 7); not claimed until its check is registered")))
    man = dict(
        version=1,
        setup_cmd="/venv/bin/pip install --no-index --find-links /opt/veriftools/wheels hypothesis >/dev/null 2>&1; /venv/bin/python -c 'import hypothesis, virocon'",
        hooks=dict(
            guard="VIROCON_VERIF",
            enable="no source hooks are needed: checks import /repo's working tree through the editable install of /venv (or VP_REPO_ROOT for scratch copies)",
            baseline_off_cmd="cd /repo && /venv/bin/python -m pytest -ra -q -p no:cacheprovider --timeout=900 --continue-on-collection-errors",
            source_commits=[],
            add_only=True,
        ),
        engines=[dict(name="vp", path="/verif/vp", serves_properties=sorted(CHECKS), kind_free_text="Hypothesis-driven property-based testing framework: JSON case specs, sharded over 16 processes, collect-then-shrink, replay files, known-findings file")],
        checks=checks,
        notes="All checks: ./vcheck <ID> --tier quick|thorough ; replay: ./vcheck <ID> --replay <file>. VERIF_SEED selects the Hypothesis seed. Exit 0 held / 1 VIOLATION / 2 harness error.",
        not_applicable=na,
    )
    json.dump(man, open(os.path.join(HERE, "MANIFEST.json"), "w"), indent=1)
    print("checks:", [c["property_id"] for c in checks], "not_applicable:", len(na))

if __name__ == "__main__":
    main()
