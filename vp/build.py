"""JSON spec -> live virocon objects.  The only place that touches virocon constructors."""

import numpy as np
import scipy.stats as sts

import virocon
from virocon import (
    WeibullDistribution,
    LogNormalDistribution,
    NormalDistribution,
    ExponentiatedWeibullDistribution,
    GeneralizedGammaDistribution,
    VonMisesDistribution,
    ScipyDistribution,
    DependenceFunction,
    GlobalHierarchicalModel,
    WidthOfIntervalSlicer,
    NumberOfIntervalsSlicer,
    PointsPerIntervalSlicer,
)
from virocon.distributions import LogNormalNormFitDistribution

from vp.gen import depshapes


class ScipyGamma(ScipyDistribution):
    scipy_dist_name = "gamma"


class ScipyGumbelR(ScipyDistribution):
    scipy_dist_name = "gumbel_r"


class ScipyRayleigh(ScipyDistribution):
    scipy_dist_name = "rayleigh"


class ScipyGenGamma(ScipyDistribution):
    # declared by object rather than by name (both ways are documented)
    scipy_dist = sts.gengamma


class ScipyGenExtreme(ScipyDistribution):
    scipy_dist_name = "genextreme"


class _bimodal_gen(sts.rv_continuous):
    """equal mixture of gamma(4) and gamma(4) shifted by `sep` - a bimodal law declared through scipy_dist"""

    def _argcheck(self, sep):
        return sep >= 0

    def _cdf(self, x, sep):
        return 0.5 * sts.gamma.cdf(x, 4.0) + 0.5 * sts.gamma.cdf(x - sep, 4.0)

    def _pdf(self, x, sep):
        return 0.5 * sts.gamma.pdf(x, 4.0) + 0.5 * sts.gamma.pdf(x - sep, 4.0)


_bimodal = _bimodal_gen(a=0.0, name="bimodal", shapes="sep")


class ScipyBimodal(ScipyDistribution):
    scipy_dist = _bimodal


CLASSES = {
    "Weibull": WeibullDistribution,
    "LogNormal": LogNormalDistribution,
    "Normal": NormalDistribution,
    "LogNormalNormFit": LogNormalNormFitDistribution,
    "ExponentiatedWeibull": ExponentiatedWeibullDistribution,
    "GeneralizedGamma": GeneralizedGammaDistribution,
    "VonMises": VonMisesDistribution,
    "ScipyGamma": ScipyGamma,
    "ScipyGumbelR": ScipyGumbelR,
    "ScipyRayleigh": ScipyRayleigh,
    "ScipyGenGamma": ScipyGenGamma,
    "ScipyGenExtreme": ScipyGenExtreme,
    "ScipyBimodal": ScipyBimodal,
}


def dist(family, params=None, fixed=None):
    """params: {name: value}; fixed: {name: value} passed as f_<name>."""
    kw = dict(params or {})
    for k, v in (fixed or {}).items():
        kw[f"f_{k}"] = v
    return CLASSES[family](**kw)


def dep_function(spec, registry=None):
    """spec: {"shape": name, "coef": [...], "bounds":?, "weights":?, "chain": {param: spec}}"""
    fn = depshapes.python_callable(spec["shape"], use_defaults=spec.get("use_defaults", False),
                                   coef=spec.get("coef"))
    kwargs = {}
    if spec.get("bounds") is not None:
        kwargs["bounds"] = [tuple(b) for b in spec["bounds"]]
    if spec.get("weights"):
        kwargs["weights"] = depshapes.weight_callable(spec["weights"])
    for par, sub in (spec.get("chain") or {}).items():
        kwargs[par] = sub if isinstance(sub, DependenceFunction) else dep_function(sub)
    df = DependenceFunction(fn, **kwargs)
    if not spec.get("use_defaults", False) and spec.get("coef") is not None:
        names = list(df.parameters.keys())
        df.parameters = dict(zip(names, [float(c) for c in spec["coef"][: len(names)]]))
    return df


def slicer(spec):
    if spec is None:
        return None
    kind = spec["kind"]
    opts = {k: v for k, v in spec.items() if k != "kind"}
    if "reference" in opts and isinstance(opts["reference"], str) and opts["reference"].startswith("np."):
        opts["reference"] = getattr(np, opts["reference"][3:])
    if "value_range" in opts and opts["value_range"] is not None:
        opts["value_range"] = tuple(opts["value_range"])
    if kind == "width":
        return WidthOfIntervalSlicer(**opts)
    if kind == "number":
        return NumberOfIntervalsSlicer(**opts)
    if kind == "points":
        return PointsPerIntervalSlicer(**opts)
    raise ValueError(kind)


def description(model_spec):
    """List of dist_descriptions for GlobalHierarchicalModel."""
    descs = []
    for lvl in model_spec:
        d = {}
        cond = lvl.get("conditional_on")
        if cond is None:
            d["distribution"] = dist(lvl["family"], lvl.get("params"), lvl.get("fixed"))
        else:
            d["distribution"] = dist(lvl["family"], None, lvl.get("fixed"))
            d["conditional_on"] = cond
            pars = {}
            made = {}
            for pname, dspec in lvl["dependent"].items():
                if dspec.get("chain"):
                    continue
                made[pname] = dep_function(dspec)
                pars[pname] = made[pname]
            for pname, dspec in lvl["dependent"].items():
                if dspec.get("chain"):
                    sub = dict(dspec)
                    sub["chain"] = {k: made[v] if isinstance(v, str) else v for k, v in dspec["chain"].items()}
                    pars[pname] = dep_function(sub)
            # keep the spec's declaration order
            d["parameters"] = {k: pars[k] for k in lvl["dependent"].keys()}
        if lvl.get("intervals") is not None:
            d["intervals"] = slicer(lvl["intervals"])
        descs.append(d)
    return descs


def model(model_spec):
    return GlobalHierarchicalModel(description(model_spec))
