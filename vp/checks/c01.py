"""C01 - IFORM/ISORM contours are the inverse-Rosenblatt image of the beta-sphere."""

import math

import numpy as np
import scipy.special as sp
from hypothesis import strategies as st

from vp.runner import Part
from vp.gen import models, families as fam
from vp.oracles import refmodel, formulas as F
from vp import build

ID = "C01"
LEVEL = "exploration"
RULE = (
    "Hypothesis draws a hierarchical model spec (n_dim 2-4, every conditional_on structure, families and "
    "constructed dependence shapes of DESIGN 3.1-3.3), alpha log-uniform in [1e-8, 0.5] and n_points >= 3; "
    "IFORMContour and ISORMContour are computed on it. Oracle: beta from scipy.special, sphere geometry, "
    "Rosenblatt back-map of every contour point through the model's own cdf (one point at a time, conditioning "
    "column taken from the spec), the independent reference inverse-Rosenblatt of the spec, and the 2-D "
    "marginal-quantile identity. Non-trivial: at least one conditional variable whose dependent parameter "
    "varies by >= 10 % over the conditioner's bulk range; distinct by sha1 of the JSON case."
)
ASSUMPTIONS = [
    "the component cdf/icdf of the families are decided by C05/C08; here the model's own cdf is used for the back-map as the property states",
    "tolerance 1e-6 in standard-normal space or the representability bracket Phi(u) in [F(x-4ulp), F(x+4ulp)]",
    "2-D contours up to n_points 1500 (point-wise back-map on ~200 of the points beyond 250); n-D contours explored up to n_points 80 (quick) / 200 (thorough); NSphere is quadratic in n_points",
    "parameters restricted to the metocean-plausible sub-ranges of DESIGN 3.1 (model-level property)",
]


def _chi2_ppf(p, n):
    # chi2_n^-1(p) = 2 * gammaincinv(n/2, p)
    return 2.0 * sp.gammaincinv(n / 2.0, p)


def check_contour(case, ctx):
    spec, alpha, n_points, kind = case["model"], case["alpha"], case["n_points"], case["kind"]
    n_dim = len(spec)
    for c in models.spec_classes(spec):
        ctx.cls(c)
    ctx.cls(f"kind={kind}", f"alpha_decade={int(math.floor(math.log10(alpha)))}")
    rng = refmodel.approx_range(spec)
    var = max(refmodel.dependence_variation(spec, i, rng) for i in range(n_dim))
    ctx.nontrivial(var >= 0.1)

    from virocon import IFORMContour, ISORMContour

    model = build.model(spec)
    cls = IFORMContour if kind == "IFORM" else ISORMContour
    ok, cont = ctx.call(f"compute:{kind}", cls, model, alpha, n_points)
    if not ok:
        return
    tag = f"{kind}:{n_dim}d"

    # 1. beta
    if kind == "IFORM":
        beta_ref = float(sp.ndtri(1 - alpha))
    else:
        beta_ref = float(math.sqrt(_chi2_ppf(1 - alpha, n_dim)))
    if not abs(cont.beta - beta_ref) <= 1e-10 * max(1.0, abs(beta_ref)):
        ctx.violation(f"beta:{tag}", f"beta={cont.beta!r} expected={beta_ref!r} alpha={alpha!r}")
        return

    coords = np.asarray(cont.coordinates, dtype=float)
    sph = np.asarray(cont.sphere_points, dtype=float)
    # 2. shapes and sphere geometry
    if coords.shape != (n_points, n_dim) or sph.shape != (n_points, n_dim):
        ctx.violation(f"shape:{tag}", f"coordinates {coords.shape} sphere {sph.shape} expected {(n_points, n_dim)}")
        return
    norms = np.linalg.norm(sph, axis=1)
    if not np.all(np.abs(norms - beta_ref) <= 1e-9 * max(beta_ref, 1e-12) + 1e-12):
        ctx.violation(f"sphere_norm:{tag}", f"norms in [{norms.min()!r},{norms.max()!r}] beta={beta_ref!r}")
    if beta_ref > 1e-9:
        unit = sph / beta_ref
        if n_dim == 2:
            ang = np.arctan2(unit[:, 1], unit[:, 0]) % (2 * math.pi)
            exp_ang = 2 * math.pi * np.arange(n_points) / n_points
            dev = np.abs((ang - exp_ang + math.pi) % (2 * math.pi) - math.pi)
            if dev.max() > 1e-9:
                ctx.violation(f"angles:{tag}", f"direction {int(dev.argmax())} deviates {dev.max():.3g} rad from 2*pi*k/n")
        else:
            g = unit @ unit.T
            np.fill_diagonal(g, -1)
            if g.max() > 1 - 5e-13:  # angular separation < ~1e-6
                ctx.violation(f"distinct:{tag}", f"two directions coincide (max cosine {g.max()!r})")

    if not np.all(np.isfinite(coords)):
        # a dependence function extrapolated to the 1e-7 tail can push a quantile beyond the largest float
        # (mu = 1476 for a log-normal): the exact value overflows too, nothing to compare
        ref_nf = refmodel.inverse_rosenblatt(spec, sp.ndtr(sph))
        if np.all(np.isfinite(coords) | ~np.isfinite(ref_nf) | (np.abs(ref_nf) > 1e300)):
            ctx.cls("overflow:reference_overflows_too")
            return
        ctx.violation(f"nonfinite:{tag}", f"{int(np.sum(~np.isfinite(coords)))} non-finite coordinates, first row {coords[~np.isfinite(coords).all(axis=1)][:1].tolist()}")
        return

    # 3. Rosenblatt back-map through the model's own cdf, one point at a time
    worst = 0.0
    rows = range(n_points)
    if n_points > 250:  # long contours: shape / angles / norms for all points, the point-wise back-map for ~200 of them
        rows = sorted(set(np.linspace(0, n_points - 1, 200).astype(int).tolist()) | {0, 1, n_points - 2, n_points - 1})
    for r in rows:
        us = np.empty(n_dim)
        bracket_ok = True
        for k in range(n_dim):
            j = spec[k].get("conditional_on")
            dist = model.distributions[k]
            x = coords[r, k]

            def cdf(v, dist=dist, j=j, r=r):
                if j is None:
                    return float(np.asarray(dist.cdf(v)))
                return float(np.asarray(dist.cdf(v, given=coords[r, j])))

            try:
                p = cdf(x)
            except Exception as e:  # noqa: BLE001
                ctx.violation(f"raises:backmap_cdf:{tag}:{type(e).__name__}", str(e))
                return
            u = float(sp.ndtri(p))
            us[k] = u
            target = sph[r, k]
            if abs(u - target) <= 1e-6:
                continue
            # representability-aware: Phi(target) within [F(x-), F(x+)]
            h = 4 * np.spacing(abs(x)) if x != 0 else 1e-300
            pt = float(sp.ndtr(target))
            lo, hi = cdf(x - h), cdf(x + h)
            if spec[k]["family"] == "VonMises":
                # circular: at the branch cut mu +- pi the levels 0 and 1 are the same direction; anywhere else the
                # model's own (non-periodic) cdf must return the level itself
                if abs(p - pt) <= 1e-8 or (abs(abs(p - pt) - 1) <= 1e-8 and min(pt, 1 - pt) <= 1e-6):
                    us[k] = target
                    continue
            if lo - 1e-15 <= pt <= hi + 1e-15:
                us[k] = target
                continue
            bracket_ok = False
            ctx.violation(
                f"backmap:{tag}",
                f"row {r} dim {k} ({spec[k]['family']}, cond_on={j}): Phi^-1(F(x))={u!r} but sphere coordinate {target!r}; x={x!r}",
            )
            return
        if bracket_ok and np.all(np.isfinite(us)):
            worst = max(worst, abs(float(np.linalg.norm(us)) - beta_ref))
    if worst > 1e-6:
        ctx.violation(f"radius:{tag}", f"|norm(u)-beta| = {worst!r}")

    # 3b. independent reference: inverse Rosenblatt of the spec
    P = sp.ndtr(sph)
    ref = refmodel.inverse_rosenblatt(spec, P)
    # (a Normal / von Mises coordinate near its zero crossing is a difference of two O(range) numbers: the agreement
    # is relative to the variable's range there, 1e-2 of it as floor; the point-wise back-map above stays strict)
    scale = np.maximum(np.abs(ref), np.array([max(abs(lo), abs(hi)) for lo, hi in rng])[None, :] * 1e-2)
    dev = np.abs(coords - ref) / np.maximum(scale, 1e-300)
    has_vm = [l["family"] == "VonMises" for l in spec]
    dev[:, has_vm] = np.minimum(dev[:, has_vm], 0)  # compared on the circle through the back-map above
    finite = np.isfinite(ref)
    bad = np.argwhere(finite & (dev > 1e-6))
    for r, k in bad.tolist():
        # second chance in probability space: in the far upper tail scipy's quantile functions lose digits of 1 - p
        # (p**(1/delta) next to 1), which moves x by 1e-6 relative while F(x) still equals the level to 1e-12
        j = spec[k].get("conditional_on")
        pr = float(refmodel.level_fun(spec, k, "cdf", coords[r, k], None if j is None else coords[r, j]))
        if abs(pr - P[r, k]) <= 1e-12:
            dev[r, k] = 0.0
    if np.any(dev[finite] > 1e-6):
        r, k = np.unravel_index(np.argmax(np.where(finite, dev, 0)), dev.shape)
        ctx.violation(
            f"reference:{tag}",
            f"row {r} dim {k} ({spec[k]['family']}, cond_on={spec[k].get('conditional_on')}): contour {coords[r, k]!r} reference inverse-Rosenblatt {ref[r, k]!r}",
        )

    # 4. largest first-variable value of a 2-D IFORM contour = marginal (1-alpha)-quantile
    if kind == "IFORM" and n_dim == 2 and spec[0]["family"] != "VonMises":
        q = float(np.asarray(model.distributions[0].icdf(1 - alpha)))
        mx = float(coords[:, 0].max())
        # 1-alpha is not exactly representable: compare in probability space through the reference cdf
        p_mx = float(F.ref(spec[0]["family"], "cdf", mx * (1 + 1e-12), spec[0]["params"]))
        p_lo = float(F.ref(spec[0]["family"], "cdf", mx * (1 - 1e-12), spec[0]["params"]))
        tol = 64 * np.spacing(1 - alpha)
        if not (p_lo - tol <= 1 - alpha <= p_mx + tol) and not abs(mx - q) <= 1e-9 * abs(q):
            ctx.violation(f"marginal_quantile:{tag}", f"max x0 = {mx!r}, icdf(1-alpha) = {q!r}, F(max)={p_mx!r} 1-alpha={1 - alpha!r}")
        if int(np.argmax(coords[:, 0])) != 0:
            ctx.violation(f"first_point:{tag}", f"largest first-variable value is at index {int(np.argmax(coords[:, 0]))}, not at the first direction")


def strat_2d(tier):
    return st.builds(
        lambda m, e, n, kind: dict(model=m, alpha=float(10.0**e) if e < -0.31 else 0.5, n_points=n, kind=kind),
        models.model_spec(n_dims=(2,)),
        st.floats(-8, -0.3),
        st.one_of(st.integers(3, 12), st.integers(3, 200), st.integers(3, 200), st.integers(200, 1500)),  # users pass 360, 720, ...
        st.sampled_from(["IFORM", "ISORM"]),
    )


def strat_nd(tier):
    hi = 200 if tier == "thorough" else 60
    return st.builds(
        lambda m, e, n, kind: dict(model=m, alpha=float(10.0**e), n_points=n, kind=kind),
        models.model_spec(n_dims=(3, 4)),
        st.floats(-8, -0.31),
        st.one_of(st.integers(3, 16), st.integers(3, hi)),
        st.sampled_from(["IFORM", "ISORM"]),
    )


PARTS = [
    Part("contour2d", check_contour, strat_2d, quick=3000, thorough=25000, min_nontrivial_frac=0.3),
    Part("contournd", check_contour, strat_nd, quick=1500, thorough=12000, min_nontrivial_frac=0.3),
]
