"""C02 - highest-density contour encloses the highest-density region of content 1-alpha."""

import warnings

import numpy as np
from hypothesis import strategies as st
from hypothesis.extra import numpy as hnp

from vp.runner import Part
from vp.checks import hdc_common as H
from vp.oracles import refmodel

ID = "C02"
LEVEL = "exploration"
RULE = (
    "Part hdc: Hypothesis draws 2-D and 3-D hierarchical models over the non-negative families, alpha log-uniform in [1e-6, 0.3], limits "
    "(explicit per-dimension tuples built from marginal quantiles 1-alpha*t with t in [1e-3, 50] so that 1-alpha is both reachable and not "
    "reachable; or default) and deltas (default / scalar / per-dimension / anisotropic up to 10), 10-320 cells per axis (default deltas: 401; 3-D: 10-80). The "
    "enclosed region is reconstructed from public outputs only (fm, cell_center_coordinates) with cell probabilities computed by the harness "
    "from the spec as products of conditional cdf differences. Oracle: content <= 1-alpha and short by less than the densest excluded cell, "
    "fm = density of the least dense enclosed cell, enclosed >= excluded, RuntimeWarning iff the grid holds less than 1-alpha, and "
    "cell_averaged_joint_pdf == harness cell probabilities / cell volume. Part cumsum: random non-negative arrays (1-3-D, ties, zeros) and "
    "limits for the public cumsum_biggest_until. Non-trivial: region of >= 20 cells that is not the whole grid and a conditional dimension."
)
ASSUMPTIONS = [
    "cell probabilities are evaluated with the reference cdf formulas (C05); ties at the threshold are handled by the tolerance set |dens-fm| <= 1e-9 fm",
    "default limits only for alpha >= 1e-3 (quick) / 1e-4 (thorough): the implementation draws 5/(0.2^n alpha) joint samples; 3-D grids up to 36^3 (quick) / 80^3 (thorough) cells",
]


def check_hdc(case, ctx):
    for c in H.classes(case):
        ctx.cls(c)
    run = H.HDCRun(case, ctx)
    if not run.ok:
        return
    alpha, P, dens, fm = run.alpha, run.P, run.dens, run.fm
    n_cells = P.size
    eps = 1e-9 + n_cells * 2.0**-52
    tag = f"alpha={alpha!r} limits={case['limits']} deltas={case['deltas']} grid={list(P.shape)} fm={fm!r} P_tot={run.P_tot!r}"
    aniso = max(run.deltas) / min(run.deltas) > 1.5
    ctx.cls("anisotropic" if aniso else "isotropic")
    # grid construction: starts at min(limit), step delta, covers max(limit)
    if case["limits"] is not None:
        for k, (lim, c) in enumerate(zip(case["limits"], run.centers)):
            lo, hi = min(lim), max(lim)
            if abs(c[0] - lo) > 1e-12 * max(1, abs(lo)) or c[-1] < hi - 1e-9 * max(1, abs(hi)) or c[-1] > hi + run.deltas[k] * (1 + 1e-9):
                ctx.violation("grid:limits", f"{tag}: axis {k} centres from {c[0]!r} to {c[-1]!r} for limits ({lo!r},{hi!r})")
        if case["deltas"] is not None:
            dd = [case["deltas"]] * run.n if np.isscalar(case["deltas"]) else case["deltas"]
            for k in range(run.n):
                if abs(run.deltas[k] - dd[k]) > 1e-9 * dd[k]:
                    ctx.violation("grid:deltas", f"{tag}: axis {k} spacing {run.deltas[k]!r} for delta {dd[k]!r}")
    # U2: cell-averaged joint pdf = harness cell probabilities / volume
    ok, fbar = ctx.call("cell_averaged_joint_pdf", run.contour.cell_averaged_joint_pdf, [c.copy() for c in run.centers])
    if ok:
        fbar = np.asarray(fbar, dtype=float)
        if fbar.shape != P.shape:
            ctx.violation("cell_pdf:shape", f"{tag}: {fbar.shape} vs grid {P.shape}")
        else:
            good = np.abs(fbar * run.vol - P) <= 1e-9 * np.maximum(P, fbar * run.vol) + H.ATOL_P
            if not good.all():
                idx = np.unravel_index(int(np.argmin(good)), P.shape)
                ctx.violation(
                    f"cell_pdf:value:{run.n}d:{refmodel.structure_name(run.spec)}",
                    f"{tag}: cell {idx} centre {[float(run.centers[k][idx[k]]) for k in range(run.n)]}: cell_averaged_joint_pdf*vol={float(fbar[idx] * run.vol)!r} but cdf-difference product={float(P[idx])!r}",
                )
    # W: warning iff the grid cannot hold 1-alpha
    if run.P_tot < 1 - alpha - eps and not run.warned:
        ctx.violation("warning:missing", f"{tag}: grid holds {run.P_tot!r} < 1-alpha but no RuntimeWarning was raised")
        return
    if run.P_tot > 1 - alpha + eps and run.warned:
        ctx.violation("warning:spurious", f"{tag}: grid holds {run.P_tot!r} > 1-alpha but the 'could not be reached' warning was raised")
        return
    ctx.cls("warning_path" if run.warned else "regular_path")
    if run.warned:
        if fm != 0:
            ctx.violation("warning:fm", f"{tag}: warning path but fm={fm!r} (whole grid expected, fm=0)")
        return
    if abs(run.P_tot - (1 - alpha)) <= eps:
        return  # boundary case of the iff: either is fine
    # E2E content conditions
    T = np.abs(dens - fm) <= H.EPS * fm + H.ATOL_P / run.vol
    S = (dens > fm) & ~T
    nT = int(T.sum())
    if nT == 0:
        ctx.violation("fm:not_a_cell_density", f"{tag}: no cell has density fm; nearest {float(dens.flat[np.argmin(np.abs(dens - fm))])!r}")
        return
    pS = float(P[S].sum())
    pT = np.sort(P[T])[::-1]
    target = 1 - alpha
    rest = dens[~(S | T)]
    p_next_excluded = float(P[~(S | T)][np.argmax(rest)]) if rest.size else 0.0
    ok_any = False
    for k in range(1, nT + 1):
        content = pS + float(pT[:k].sum())
        nxt = float(pT[k]) if k < nT else p_next_excluded
        if content <= target + eps and content + nxt > target - eps:
            ok_any = True
            break
    if not ok_any:
        content = pS + float(pT.sum())
        if pS + float(pT[-1:].sum()) > target + eps:
            ctx.violation("content:exceeds", f"{tag}: enclosed cells with density >= fm hold {pS + float(pT[-1]):.12g} > 1-alpha = {target:.12g}")
        else:
            ctx.violation("content:too_small", f"{tag}: enclosed content {content:.12g}; adding the densest excluded cell ({p_next_excluded:.3g}) still gives <= 1-alpha = {target:.12g}: the region is not the largest prefix")
        return
    region_cells = int(S.sum()) + nT
    ctx.nontrivial(region_cells >= 20 and region_cells < n_cells and any(l.get("conditional_on") is not None for l in run.spec))


# ------------------------------------------------------------------------- part cumsum
def check_cumsum(case, ctx):
    from virocon import HighestDensityContour

    arr = np.array(case["array"], dtype=float)
    limit = case["limit"]
    ctx.cls(f"ndim={arr.ndim}", "ties" if len(np.unique(arr)) < arr.size else "distinct")
    before = arr.copy()
    total = float(arr.sum())
    with warnings.catch_warnings(record=True) as rec:
        warnings.simplefilter("always")
        try:
            fields, last = HighestDensityContour.cumsum_biggest_until(arr, limit)
        except Exception as e:  # noqa: BLE001
            if float(arr.max()) > limit:
                ctx.rejected_by_contract()  # not even the largest element fits: no prefix exists (IndexError in the implementation)
                return
            ctx.violation(f"cumsum:raises:{type(e).__name__}", f"array={arr.tolist()} limit={limit!r}: {e}")
            return
    warned = any(issubclass(w.category, RuntimeWarning) for w in rec)
    if not np.array_equal(arr, before):
        ctx.violation("cumsum:input_mutated", f"array changed from {before.tolist()} to {arr.tolist()}")
    fields = np.asarray(fields)
    if fields.shape != arr.shape:
        ctx.violation("cumsum:shape", f"{fields.shape} vs {arr.shape}")
        return
    sel = fields == 1
    tol = 1e-12 * max(total, 1.0)
    ctx.nontrivial(0 < sel.sum() < arr.size)
    tag = f"array={arr.tolist()} limit={limit!r} selected={sel.astype(int).tolist()} last={float(last)!r}"
    if not np.all((fields == 0) | (fields == 1)):
        ctx.violation("cumsum:fields_not_binary", tag)
    ssum = float(arr[sel].sum())
    if ssum > limit + tol:
        ctx.violation("cumsum:exceeds_limit", f"{tag}: selected sum {ssum!r}")
    if (~sel).any():
        if arr[sel].size and arr[sel].min() < arr[~sel].max() - 0:
            ctx.violation("cumsum:not_biggest", f"{tag}: a selected element is smaller than an unselected one")
        if ssum + float(arr[~sel].max()) <= limit - tol:
            ctx.violation("cumsum:not_maximal", f"{tag}: the largest unselected element would still fit")
    if sel.any() and float(last) != float(arr[sel].min()):
        ctx.violation("cumsum:last_summed", f"{tag}: last_summed != smallest selected element {float(arr[sel].min())!r}")
    if (total < limit - tol) != warned and abs(total - limit) > tol:
        ctx.violation("cumsum:warning", f"{tag}: total {total!r} vs limit: warning={'yes' if warned else 'no'}")


def strat_cumsum(tier):
    @st.composite
    def s(draw):
        nd = draw(st.integers(1, 3))
        shape = tuple(draw(st.integers(1, 5)) for _ in range(nd))
        elems = st.one_of(st.sampled_from([0.0, 0.1, 0.25, 0.5]), st.floats(0, 1).map(lambda v: round(v, 3)))
        arr = draw(hnp.arrays(float, shape, elements=elems))
        total = float(arr.sum())
        mx = float(arr.max())
        limit = draw(st.one_of(
            st.floats(0, 1.2).map(lambda f: round(mx + f * max(total - mx, 0.05), 4)),
            st.floats(0, 1.2).map(lambda f: round(f * max(total, 0.1), 4)),
            st.just(round(total, 6)),
        ))
        return dict(array=arr.tolist(), limit=float(limit))

    return s()


PARTS = [
    Part("hdc", check_hdc, lambda tier: H.hdc_case(tier), max_workers=12, quick=500, thorough=9000, shrink_quick=False, min_per_shard=4, min_nontrivial_frac=0.2),
    Part("cumsum", check_cumsum, strat_cumsum, quick=3000, thorough=60000, min_nontrivial_frac=0.15),
]
