"""C03 - direct-sampling contour edges are (1-alpha)-quantile tangent lines of the sample."""

import math

import numpy as np
from hypothesis import strategies as st

from vp.runner import Part
from vp.gen import models, families as fam
from vp.oracles import refmodel
from vp import build

ID = "C03"
LEVEL = "exploration"
RULE = (
    "Hypothesis draws a finite 2-D sample of 50-50000 points (a: drawn from a generated 2-D hierarchical model by the harness' inverse "
    "Rosenblatt transform; b: arbitrary clouds - cluster mixtures, heavy tails, integer lattices with many ties - as floats and with their integer dtype -, nearly collinear), alpha "
    "log-uniform in [1e-4, 0.3] and deg_step among all divisors of 360 in [1, 60] plus 0.5, 1.5, 2.5, 7.5, 22.5; or no sample with alpha >= 1e-3. "
    "Oracle from coordinates and sample only: exactly 360/deg_step vertices; there is one rotation sense and phase such that every edge "
    "(cyclic, incl. the closing edge) lies on the line with outward normal at phase + k*deg_step whose offset lies between the order statistics "
    "z_(k-1) and z_(k+1), k = ceil((1-alpha) N), of the sample projected on that normal (any quantile definition); normals advance by exactly "
    "deg_step and cover the circle once; sample=None draws int(100/alpha) points. Non-trivial: >= 8 directions and a non-collinear sample."
)
ASSUMPTIONS = [
    "tolerance 1e-9 * max|sample| on offsets and on 'both end points of an edge lie on its tangent line'",
    "zero-length edges (three concurrent tangent lines, possible with tied data) are handled by phrasing the oracle on the direction grid rather than on edge directions",
]

DEG_STEPS = [1, 2, 3, 4, 5, 6, 8, 9, 10, 12, 15, 18, 20, 24, 30, 36, 40, 45, 60, 0.5, 1.5, 2.5, 7.5, 22.5]


def make_sample(case):
    kind = case["kind"]
    rng = np.random.default_rng(case["seed"])
    n = case["n"]
    if kind == "model":
        U = rng.uniform(1e-12, 1 - 1e-12, size=(n, 2))
        return refmodel.inverse_rosenblatt(case["model"], U)
    if kind == "clusters":
        c = rng.uniform(-5, 15, size=(3, 2))
        s = rng.uniform(0.2, 3, size=3)
        idx = rng.integers(0, 3, n)
        return c[idx] + s[idx, None] * rng.standard_normal((n, 2))
    if kind == "heavy":
        return np.c_[rng.pareto(1.5, n) + 1, rng.lognormal(0, 2.0, n)]
    if kind == "lattice":
        return np.c_[rng.integers(0, 6, n), rng.integers(0, 4, n)].astype(float)
    if kind == "lattice_int":
        # binned / count data handed over with its integer dtype (seeded change C03e: quantile buffer of the sample's dtype)
        return np.c_[rng.integers(0, 40, n), rng.integers(-7, 25, n)]
    if kind == "thin":
        t = rng.standard_normal(n)
        return np.c_[t, 2 * t + 1e-3 * rng.standard_normal(n)]
    raise ValueError(kind)


def check_ds(case, ctx):
    from virocon import DirectSamplingContour, GlobalHierarchicalModel, WeibullDistribution

    alpha, deg = case["alpha"], case["deg_step"]
    ctx.cls(f"kind={case['kind']}", f"deg_step={deg}", f"alpha_decade={int(math.floor(math.log10(alpha)))}")
    if case["kind"] == "nosample":
        model = build.model(case["model"])
        np.random.seed(case["seed"] % (2**32))
        ok, cont = ctx.call("compute:nosample", DirectSamplingContour, model, alpha, None, deg, None)
        if not ok:
            return
        sample = np.asarray(cont.sample, dtype=float)
        if sample.shape != (int(100 / alpha), 2):
            ctx.violation("sample_size", f"alpha={alpha!r}: sample shape {sample.shape}, expected ({int(100 / alpha)}, 2)")
            return
    else:
        sample = make_sample(case)
        if not np.all(np.isfinite(sample)):
            return
        model = GlobalHierarchicalModel([{"distribution": WeibullDistribution()}, {"distribution": WeibullDistribution()}])
        before = sample.copy()
        # n is documented as the number of points to *simulate*; next to a supplied sample it has no role, whatever
        # its value (a third of the cases pass one smaller / larger than the sample)
        n_arg = None
        if case["seed"] % 3 == 0:
            n_arg = max(3, len(sample) // 2) if case["seed"] % 2 == 0 else 2 * len(sample)
        ctx.cls(f"n_next_to_sample={'none' if n_arg is None else ('smaller' if n_arg < len(sample) else 'larger')}")
        ok, cont = ctx.call(f"compute:{case['kind']}", DirectSamplingContour, model, alpha, n_arg, deg, sample)
        if not ok:
            return
        if not np.array_equal(sample, before):
            ctx.violation("sample_mutated", "the supplied sample was modified")
    V = np.asarray(cont.coordinates, dtype=float)
    N = len(sample)
    m_exp = int(round(360 / deg))
    tag = f"kind={case['kind']} N={N} alpha={alpha!r} deg_step={deg}"
    if V.ndim != 2 or V.shape[1] != 2:
        ctx.violation("shape", f"{tag}: coordinates shape {V.shape}")
        return
    if len(V) != m_exp:
        ctx.violation("vertex_count", f"{tag}: {len(V)} vertices, expected 360/deg_step = {m_exp}")
        return
    if not np.all(np.isfinite(V)):
        ctx.violation("nonfinite_vertex", f"{tag}: vertices {np.argwhere(~np.isfinite(V).all(axis=1)).ravel().tolist()} are not finite")
        return
    scale = float(np.max(np.abs(sample))) + 1e-300
    tol = 1e-9 * scale
    centre = sample.mean(axis=0)
    collinear = np.linalg.matrix_rank(sample - centre, tol=1e-9 * scale) < 2
    ctx.nontrivial(m_exp >= 8 and not collinear)
    step = math.radians(deg)
    k_os = int(math.ceil((1 - alpha) * N))  # 1-based order statistic

    def bracket(nrm):
        z = np.sort(sample @ nrm)
        lo = z[max(k_os - 2, 0)]
        hi = z[min(k_os, N - 1)]
        return lo, hi

    # phase from the longest edge
    E = np.roll(V, -1, axis=0) - V
    L = np.hypot(E[:, 0], E[:, 1])
    j = int(np.argmax(L))
    if L[j] <= tol:
        # all vertices coincide: every tangent line passes through one point (e.g. a tiny lattice)
        P = V[0]
        for kk in range(m_exp):
            nrm = np.array([math.cos(kk * step), math.sin(kk * step)])
            lo, hi = bracket(nrm)
            c = float(P @ nrm)
            if not (lo - tol <= c <= hi + tol):
                ctx.violation("degenerate_polygon_off_quantile", f"{tag}: all vertices at {P.tolist()}, direction {kk}: offset {c!r} outside [{lo!r},{hi!r}]")
                return
        return
    t = E[j] / L[j]
    nrm0 = np.array([t[1], -t[0]])
    failures = {}
    # the outward side of the longest edge and the rotation sense are not prescribed: any consistent choice passes
    for side in (+1, -1):
        nrm = side * nrm0
        phi0 = math.atan2(nrm[1], nrm[0])
        for s in (+1, -1):
            bad = None
            for kk in range(m_exp):
                idx = (j + kk) % m_exp
                ang = phi0 + s * kk * step
                nk = np.array([math.cos(ang), math.sin(ang)])
                a, b = V[idx], V[(idx + 1) % m_exp]
                ca, cb = float(a @ nk), float(b @ nk)
                if abs(ca - cb) > 10 * tol + 1e-9 * abs(ca):
                    bad = ("edge_off_grid", idx, kk, f"edge {idx}->{(idx + 1) % m_exp} is not perpendicular to the direction at phase+{s * kk}*deg_step (offsets {ca!r} vs {cb!r})")
                    break
                lo, hi = bracket(nk)
                if not (lo - 10 * tol <= ca <= hi + 10 * tol):
                    frac = float(np.mean(sample @ nk > ca))
                    bad = ("edge_off_quantile", idx, kk, f"edge {idx}->{(idx + 1) % m_exp}: offset {ca!r} along its normal, but the (1-alpha) order statistics are [{lo!r},{hi!r}]; fraction beyond the edge {frac!r} vs alpha")
                    break
            if bad is None:
                return
            failures[(side, s)] = bad
    # report the failure of the sense that got furthest
    kind, idx, _, msg = max(failures.values(), key=lambda b: b[2])
    where = "closing" if idx in (m_exp - 1, m_exp - 2) else "inner"
    ctx.violation(f"{kind}:{where}", f"{tag}: {msg}")


@st.composite
def strat_ds(draw, tier):
    big = 50000 if tier == "thorough" else 12000
    kind = draw(st.sampled_from(["model", "model", "clusters", "heavy", "lattice", "lattice_int", "thin", "nosample"]))
    case = dict(kind=kind, seed=draw(st.integers(0, 2**31 - 1)), deg_step=draw(st.sampled_from(DEG_STEPS)))
    if kind in ("model", "nosample"):
        case["model"] = draw(models.model_spec(n_dims=(2,), allow_scipy=False))
    if kind == "nosample":
        case["alpha"] = float(10.0 ** draw(st.floats(-3, math.log10(0.3))))
        case["n"] = 0
    else:
        case["alpha"] = float(10.0 ** draw(st.floats(-4, math.log10(0.3))))
        case["n"] = draw(st.one_of(st.integers(50, 500), st.integers(50, big)))
    return case


PARTS = [
    Part("ds", check_ds, lambda tier: strat_ds(tier), quick=2500, thorough=60000, min_nontrivial_frac=0.3),
]
