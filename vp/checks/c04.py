"""C04 - AND/OR contour points have empirical exceedance alpha within allowed_error."""

import math
import warnings

import numpy as np
from hypothesis import strategies as st

from vp.runner import Part
from vp.gen import models
from vp.oracles import refmodel
from vp import build

ID = "C04"
LEVEL = "exploration"
RULE = (
    "Hypothesis draws a non-negative 2-D hierarchical model, a sample of 200-30000 points drawn from it by the harness' inverse Rosenblatt "
    "transform (optionally rounded to create ties), alpha log-uniform in [1e-3, 0.2], deg_step in [1, 30], allowed_error in [0.005, 0.2] and, for "
    "the OR contour, lowest_theta in [0, 30] and highest_theta in [60, 90]; N is biased to >= 3/(alpha*allowed_error) so that most cases can reach "
    "the precision. Oracle (from coordinates and sample only): unless the 'could not achieve the required precision' UserWarning was emitted, every "
    "searched point lies on its ray (angle theta_j from the documented arange) and the fraction of sample points exceeding it in both (AND) / at "
    "least one (OR) variable is within allowed_error*alpha of alpha (strict '>'); closure rows as documented; OR points are a theta-ordered "
    "subsequence inside 1.1*max range and every omitted ray leaves that range with exceedance >= alpha(1-allowed_error). Non-trivial: no warning "
    "and >= 3 searched points."
)
ASSUMPTIONS = [
    "cases with the documented precision warning are exempt from the exceedance oracle (structural checks only); their share is measured",
    "marginal_icdf of a conditional variable is Monte-Carlo on numpy's global RNG, seeded by the harness",
]

NONNEG = ["Weibull", "LogNormal", "ExponentiatedWeibull", "GeneralizedGamma", "LogNormalNormFit"]


def make_sample(case):
    rng = np.random.default_rng(case["seed"])
    U = rng.uniform(1e-12, 1 - 1e-12, size=(case["n"], 2))
    X = refmodel.inverse_rosenblatt(case["model"], U)
    if case["round"] is not None:
        X = np.round(X, case["round"])
    return X


def to_float_array(coords):
    try:
        arr = np.asarray(coords, dtype=float)
    except Exception:  # noqa: BLE001
        return None
    return arr


def check_andor(case, ctx):
    from virocon import AndContour, OrContour

    kind, alpha, deg, err = case["kind"], case["alpha"], case["deg_step"], case["allowed_error"]
    ctx.cls(f"kind={kind}", f"round={case['round']}")
    sample = make_sample(case)
    if not np.all(np.isfinite(sample)) or np.any(sample < 0):
        return
    model = build.model(case["model"])
    before = sample.copy()
    np.random.seed(case["seed"] % (2**32))
    with warnings.catch_warnings(record=True) as rec:
        warnings.simplefilter("always")
        try:
            if kind == "and":
                cont = AndContour(model, alpha, deg_step=deg, sample=sample, allowed_error=err)
            else:
                cont = OrContour(model, alpha, deg_step=deg, sample=sample, allowed_error=err, lowest_theta=case["lowest_theta"], highest_theta=case["highest_theta"])
        except IndexError:
            if kind == "or":
                ctx.cls("or:no_point_in_range")
                return
            raise
        except Exception as e:  # noqa: BLE001
            ctx.violation(f"raises:{kind}:{type(e).__name__}", f"{case}: {str(e)[:200]}")
            return
    warned = any(issubclass(w.category, UserWarning) and "required precision" in str(w.message) for w in rec)
    ctx.cls("precision_warning" if warned else "no_warning")
    if not np.array_equal(sample, before):
        ctx.violation(f"sample_mutated:{kind}", "the supplied sample was modified")
    C = to_float_array(cont.coordinates)
    tag = f"kind={kind} N={len(sample)} alpha={alpha!r} deg_step={deg} allowed_error={err!r} round={case['round']}"
    if C is None or C.ndim != 2 or C.shape[1] != 2 or getattr(cont.coordinates, "dtype", None) == object:
        ctx.violation(f"coordinates_not_numeric:{kind}", f"{tag}: coordinates is {type(cont.coordinates).__name__} dtype={getattr(cont.coordinates, 'dtype', None)} shape={getattr(cont.coordinates, 'shape', None)}; first element {np.ravel(cont.coordinates)[0]!r}")
        if C is None:
            C = np.array([[float(np.ravel(a)[0]) for a in row] for row in cont.coordinates])
    x, y = sample[:, 0], sample[:, 1]
    tol_pe = err * alpha + 1e-12

    def pe(p):
        if kind == "and":
            return float(np.mean((x > p[0]) & (y > p[1])))
        return float(np.mean((x > p[0]) | (y > p[1])))

    # the search starts at 0.2*M, M = |(marginal (1-alpha)-quantiles)|, and halves its step whenever it retreats,
    # so it can never get closer to the origin than 0.1*M: rays whose alpha point is nearer end in the warning.
    np.random.seed(case["seed"] % (2**32))
    try:
        M = math.hypot(float(model.marginal_icdf(1 - alpha, 0)), float(model.marginal_icdf(1 - alpha, 1)))
    except Exception:  # noqa: BLE001
        M = math.inf

    def reachable(theta_deg):
        """Must the search succeed on this ray?  pe is a step function of the distance d along the ray; the search
        converges to the crossing d* of alpha, where the two neighbouring levels are the candidates, and it can
        only get there if d* lies outside its blind zone (15 % of M taken as margin for the Monte-Carlo M)."""
        th = math.radians(theta_deg)
        c, s_ = math.cos(th), math.sin(th)
        with np.errstate(all="ignore"):
            # along an axis-parallel ray the other coordinate is compared with 0: strictly positive values always
            # exceed it, values equal to 0 (rounded data) never do
            dx = x / c if c > 1e-12 else np.where(x > 0, np.inf, -np.inf)
            dy = y / s_ if s_ > 1e-12 else np.where(y > 0, np.inf, -np.inf)
        t = np.sort(np.minimum(dx, dy) if kind == "and" else np.maximum(dx, dy))
        N_ = len(t)
        k = int(math.floor(alpha * N_ + 1e-12))
        if k >= N_ or k < 1:
            return False
        d_star = t[N_ - k - 1]  # pe(d) <= alpha  iff  d >= d_star
        if not (math.isfinite(d_star) and d_star >= 0.15 * M and d_star <= 3 * M):
            return False
        win = t[max(N_ - k - 3, 0) : N_ - k + 2]
        if len(win) < min(5, N_) or np.any(np.diff(win) <= 1e-9 * max(abs(d_star), 1e-300)):
            # ties next to the crossing: levels are skipped.  Near-ties count as ties: on the 45 degree ray rounded
            # data (12.6, 13.0) and (13.1, 12.6) give x/cos and y/sin one ulp apart - a level of width 1 ulp that no
            # search can land in
            return False
        lv_below = k / N_
        lv_above = (k + 1) / N_
        return abs(lv_below - alpha) <= tol_pe * (1 - 1e-9) or abs(lv_above - alpha) <= tol_pe * (1 - 1e-9)

    if kind == "and":
        thetas = np.arange(0, 90, deg)
        if C.shape[0] != len(thetas) + 1:
            ctx.violation("and:point_count", f"{tag}: {C.shape[0]} rows, expected len(arange(0,90,deg_step))+1 = {len(thetas) + 1}")
            return
        if not (C[-1, 0] == 0 and C[-1, 1] == 0):
            ctx.violation("and:closure", f"{tag}: last row {C[-1].tolist()} != (0, 0)")
        pts = C[:-1]
        ctx.nontrivial(not warned and len(pts) >= 3)
        for j, (p, th) in enumerate(zip(pts, thetas)):
            r = math.hypot(p[0], p[1])
            if not r > 0:
                ctx.violation("and:zero_point", f"{tag}: point {j} at the origin")
                return
            ang = math.degrees(math.atan2(p[1], p[0]))
            if abs(ang - th) > 1e-7:
                ctx.violation("and:off_ray", f"{tag}: point {j} at angle {ang!r} deg, expected {th!r}")
                return
            if warned and abs(pe(p) - alpha) > tol_pe and reachable(th):
                ctx.violation("and:exceedance_on_reachable_ray", f"{tag}: point {j} (theta={th}) {p.tolist()}: AND exceedance {pe(p)!r} is outside alpha*(1+-allowed_error) although a point within tolerance exists on this ray (the precision warning stems from another ray)")
                return
            if not warned and abs(pe(p) - alpha) > tol_pe:
                ctx.violation("and:exceedance", f"{tag}: point {j} (theta={th}) {p.tolist()}: AND exceedance {pe(p)!r}, alpha={alpha!r}, allowed deviation {tol_pe!r}")
                return
    else:
        thetas = np.arange(case["lowest_theta"], case["highest_theta"], deg)
        if C.shape[0] < 4:
            ctx.violation("or:point_count", f"{tag}: only {C.shape[0]} rows")
            return
        pts = C[:-3]
        clos = C[-3:]
        exp_clos = np.array([[0.0, pts[-1, 1]], [0.0, 0.0], [pts[0, 0], 0.0]])
        if not np.array_equal(clos, exp_clos):
            ctx.violation("or:closure", f"{tag}: last three rows {clos.tolist()}, documented closure {exp_clos.tolist()}")
        xmax, ymax = 1.1 * x.max(), 1.1 * y.max()
        # kept points: theta-ordered subsequence
        kept = []
        ti = 0
        for j, p in enumerate(pts):
            ang = math.degrees(math.atan2(p[1], p[0]))
            while ti < len(thetas) and abs(thetas[ti] - ang) > 1e-7:
                ti += 1
            if ti == len(thetas):
                ctx.violation("or:off_ray", f"{tag}: point {j} at angle {ang!r} deg is not on a searched ray in order (thetas {thetas[:4].tolist()}...)")
                return
            kept.append(ti)
            ti += 1
            if not (p[0] < xmax and p[1] < ymax):
                ctx.violation("or:outside_range_kept", f"{tag}: point {j} {p.tolist()} beyond 1.1*max ({xmax!r},{ymax!r})")
                return
            if warned and abs(pe(p) - alpha) > tol_pe and reachable(thetas[kept[-1]]):
                ctx.violation("or:exceedance_on_reachable_ray", f"{tag}: point {j} (theta={thetas[kept[-1]]}) {p.tolist()}: OR exceedance {pe(p)!r} is outside alpha*(1+-allowed_error) although a point within tolerance exists on this ray")
                return
            if not warned and abs(pe(p) - alpha) > tol_pe:
                ctx.violation("or:exceedance", f"{tag}: point {j} (theta={thetas[kept[-1]]}) {p.tolist()}: OR exceedance {pe(p)!r}, alpha={alpha!r}, allowed deviation {tol_pe!r}")
                return
        dropped = [i for i in range(len(thetas)) if i not in kept]
        ctx.cls("or:some_dropped" if dropped else "or:none_dropped")
        ctx.nontrivial(not warned and len(pts) >= 3)
        if not warned:
            for i in dropped:
                th = math.radians(thetas[i])
                c, s = math.cos(th), math.sin(th)
                # exit point of the ray from the box [0,xmax) x [0,ymax)
                d = min(xmax / c if c > 1e-15 else math.inf, ymax / s if s > 1e-15 else math.inf)
                q = (d * c * (1 - 1e-12), d * s * (1 - 1e-12))
                if pe(q) < alpha * (1 - err) - 1e-12:
                    ctx.violation("or:dropped_inside_range", f"{tag}: theta={thetas[i]} was dropped although its ray leaves the 1.1*max range with OR exceedance {pe(q)!r} < alpha(1-allowed_error): the alpha point lies inside the range")
                    return


@st.composite
def strat_andor(draw, tier):
    big = 30000 if tier == "thorough" else 12000
    kind = draw(st.sampled_from(["and", "or"]))
    alpha = float(10.0 ** draw(st.floats(-3, math.log10(0.2))))
    n = draw(st.one_of(st.integers(200, 3000), st.integers(200, big)))
    # most cases: the precision is reachable with this N (about 3 sample points inside the tolerance band)
    err_lo = 0.005
    if draw(st.integers(0, 5)) > 0:
        err_lo = min(0.2, max(0.005, 3.0 / (alpha * n)))
    err = float(10.0 ** draw(st.floats(math.log10(err_lo), math.log10(0.2))))
    spec = draw(models.model_spec(n_dims=(2,), leaf_families=NONNEG, conditioner_families=NONNEG, allow_scipy=False, allow_normal_conditioner=False, bounded_shapes=True))
    case = dict(kind=kind, model=spec, alpha=alpha, allowed_error=err, n=n, seed=draw(st.integers(0, 2**31 - 1)),
                deg_step=draw(st.one_of(st.integers(1, 30), st.sampled_from([2.5, 7.5, 4.5]))), round=draw(st.sampled_from([None, None, None, 2, 1])))
    if kind == "or":
        # angles around the diagonal of the sample's range (the OR point of a flat ray lies far outside the range)
        rng_ = refmodel.approx_range(spec, 1e-3, 0.999)
        phi = math.degrees(math.atan2(rng_[1][1], rng_[0][1]))
        lo = max(0.0, phi - draw(st.floats(3, 35)))
        hi = min(90.0, phi + draw(st.floats(3, 35)))
        case["lowest_theta"] = float(round(lo, 1))
        case["highest_theta"] = float(round(max(hi, lo + 2.0), 1))
        case["deg_step"] = draw(st.sampled_from([1, 2, 3, 5, 2.5]))
    return case


PARTS = [
    Part("andor", check_andor, lambda tier: strat_andor(tier), quick=3000, thorough=40000, shrink_quick=False, min_nontrivial_frac=0.15),
]
