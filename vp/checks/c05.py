"""C05 - every distribution's cdf/icdf/pdf follow the documented formula and each other."""

import math

import numpy as np
from hypothesis import strategies as st

from vp.runner import Part
from vp.gen import families as fam
from vp.oracles import formulas as F
from vp import build

ID = "C05"
LEVEL = "exploration"
RULE = (
    "Hypothesis draws (family, parameter vector over the wide ranges of DESIGN 3.1, quantile levels in "
    "[1e-12, 1-1e-12], argument form, override subset); the oracle is the documented formula coded "
    "independently with numpy/scipy.special, the mutual-consistency relations, and "
    "explicit-parameter == constructed-instance. Non-trivial: parameters differ from the class defaults "
    "and at least 3 evaluation points lie in the support bulk (quantile level in [0.01, 0.99]); distinct "
    "by sha1 of the JSON case."
)
ASSUMPTIONS = [
    "scipy.special (expm1, log1p, ndtr, ndtri, gammainc, gammaincinv, i0e) is trusted as the reference arithmetic",
    "ScipyDistribution subclasses are documented as 'the named scipy law with (shapes, loc, scale)', so scipy.stats is their reference",
    "scipy switches the von Mises cdf to a normal approximation for kappa >= 50: atol 1e-5 there, 1e-9 below",
    "value comparisons use rtol 1e-9 (calibrated worst case 4e-13); icdf is judged by the representability-aware bracket F(x-)<=p<=F(x+)",
]

_TAILS = st.one_of(
    st.sampled_from([1e-12, 1e-9, 1e-6, 1e-3, 1 - 1e-3, 1 - 1e-6, 1 - 1e-9, 1 - 1e-12]),
    st.floats(-12, -2).map(lambda e: 10.0**e),
    st.floats(-12, -2).map(lambda e: 1 - 10.0**e),
)
# at least three levels in the bulk (non-trivial by construction) plus tail levels
QS = st.tuples(
    st.lists(st.floats(0.01, 0.99), min_size=3, max_size=5, unique=True),
    st.lists(_TAILS, min_size=1, max_size=5, unique=True),
).map(lambda t: sorted(set(t[0] + t[1])))


def close(a, b, rtol, atol=0.0):
    a = np.asarray(a, dtype=float)
    b = np.asarray(b, dtype=float)
    with np.errstate(all="ignore"):
        ok = np.abs(a - b) <= rtol * np.maximum(np.abs(a), np.abs(b)) + atol
    ok = ok | ((a == b))  # inf == inf
    ok = ok | (np.isnan(a) & np.isnan(b))
    return ok


def worst(a, b):
    a = np.asarray(a, dtype=float)
    b = np.asarray(b, dtype=float)
    with np.errstate(all="ignore"):
        d = np.abs(a - b) / np.maximum(np.maximum(np.abs(a), np.abs(b)), 1e-300)
    d = np.where(np.isfinite(d), d, np.where(a == b, 0, np.inf))
    i = int(np.argmax(d))
    return i, float(d[i])


def xs_for(family, params, qs):
    qs = np.asarray(sorted(qs), dtype=float)
    if family == "VonMises":
        return qs, params["mu"] - math.pi + 2 * math.pi * qs
    x = np.asarray(F.ref(family, "icdf", qs, params), dtype=float)
    return qs, x


_GLX, _GLW = np.polynomial.legendre.leggauss(24)


def gl_integral(f, a, b, edges):
    tot = 0.0
    for lo, hi in zip(edges[:-1], edges[1:]):
        h = (hi - lo) / 2
        m = (hi + lo) / 2
        tot += h * float(np.sum(_GLW * f(m + h * _GLX)))
    return tot


# ------------------------------------------------------------------------ part: formula
def check_formula(case, ctx):
    family, params = case["family"], case["params"]
    ctx.cls(f"family={family}")
    d = build.dist(family, params)
    qs, x = xs_for(family, params, case["qs"])
    finite = np.isfinite(x)
    qs, x = qs[finite], x[finite]
    if len(x) < 2:
        return
    if np.sum((qs >= 0.01) & (qs <= 0.99)) >= 3:
        ctx.nontrivial()
    vm = family == "VonMises"
    vm_atol = (1e-5 if params.get("kappa", 0) >= 50 else 1e-9) if vm else 0.0
    lower = F.FAMILIES[family]["lower"](params)
    loc = F.FAMILIES[family]["loc"](params)

    # 1. documented formula
    ok, c = ctx.call(f"cdf:{family}", d.cdf, x)
    if ok:
        c = np.asarray(c, dtype=float)
        r = np.asarray(F.ref(family, "cdf", x, params), dtype=float)
        good = close(c, r, 1e-9, vm_atol if vm else 1e-300)
        if not good.all():
            i, w = worst(np.where(good, 0, c), np.where(good, 0, r))
            ctx.violation(f"formula:cdf:{family}", f"x={x[i]!r} got={c[i]!r} ref={r[i]!r} rel={w:.3g} params={params}")
        if np.any(np.diff(c) < -(1e-15 + vm_atol)):
            ctx.violation(f"monotone:cdf:{family}", f"cdf decreases on sorted x={x.tolist()} -> {c.tolist()}")
        if np.any((c < 0) | (c > 1)):
            ctx.violation(f"range:cdf:{family}", f"cdf outside [0,1]: {c.tolist()}")
    okp, f = ctx.call(f"pdf:{family}", d.pdf, x)
    if okp:
        f = np.asarray(f, dtype=float)
        r = np.asarray(F.ref(family, "pdf", x, params), dtype=float)
        good = close(f, r, 1e-9, 1e-300)
        if not good.all():
            i, w = worst(np.where(good, 0, f), np.where(good, 0, r))
            ctx.violation(f"formula:pdf:{family}", f"x={x[i]!r} got={f[i]!r} ref={r[i]!r} rel={w:.3g} params={params}")
        if np.any(f < 0):
            ctx.violation(f"negative:pdf:{family}", f"{f.tolist()}")
    oki, xi = ctx.call(f"icdf:{family}", d.icdf, qs)
    if oki:
        xi = np.asarray(xi, dtype=float)
        if vm:
            back = F.vm_cdf(xi, params["kappa"], params["mu"])
            bad = ~(np.abs(back - qs) <= vm_atol + 1e-9)
            # scipy's vonmises.ppf works on the circle centred at mu
            if bad.any():
                i = int(np.argmax(bad))
                ctx.violation("formula:icdf:VonMises", f"p={qs[i]!r} icdf={xi[i]!r} F_ref(icdf)={back[i]!r} params={params}")
        else:
            ulp = np.spacing(np.abs(xi)) * 4
            dx = np.maximum(1e-9 * np.abs(xi - (loc if np.isfinite(loc) else 0.0)), ulp)
            lo = np.asarray(F.ref(family, "cdf", xi - dx, params), dtype=float)
            hi = np.asarray(F.ref(family, "cdf", xi + dx, params), dtype=float)
            slack = 1e-12 * np.minimum(qs, 1 - qs) + 256 * np.spacing(qs)
            bad = ~((lo <= qs + slack) & (qs - slack <= hi)) | ~np.isfinite(xi)
            if bad.any():
                i = int(np.argmax(bad))
                ctx.violation(
                    f"formula:icdf:{family}",
                    f"p={qs[i]!r} icdf={xi[i]!r} F_ref(x-)={lo[i]!r} F_ref(x+)={hi[i]!r} params={params}",
                )

    # 2. mutual consistency (the implementation against itself)
    if ok and oki and not vm:
        mid = (qs >= 1e-6) & (qs <= 1 - 1e-6)
        if mid.any():
            okr, cc = ctx.call(f"cdf(icdf):{family}", d.cdf, xi[mid])
            if okr:
                cc = np.asarray(cc, dtype=float)
                q = qs[mid]
                good = np.abs(cc - q) <= 1e-9 * np.minimum(q, 1 - q) + 1e-13
                if not good.all():
                    xs_ = xi[mid]
                    u = np.spacing(np.abs(xs_)) * 4
                    lo = np.asarray(d.cdf(xs_ - u), dtype=float)
                    hi = np.asarray(d.cdf(xs_ + u), dtype=float)
                    good = good | ((lo <= q) & (q <= hi))
                if not good.all():
                    i = int(np.argmin(good))
                    ctx.violation(f"roundtrip:cdf(icdf):{family}", f"p={q[i]!r} cdf(icdf(p))={cc[i]!r} params={params}")
            okr, xx = ctx.call(f"icdf(cdf):{family}", d.icdf, c[mid])
            if okr:
                xx = np.asarray(xx, dtype=float)
                xm = x[mid]
                pr = np.asarray(F.ref(family, "pdf", xm, params), dtype=float)
                with np.errstate(all="ignore"):
                    tol = 1e-8 * np.maximum(np.abs(xm), np.abs(xm - (loc if np.isfinite(loc) else 0))) + 1e-12 / np.maximum(pr, 1e-300)
                good = np.abs(xx - xm) <= tol
                if not good.all():
                    i = int(np.argmin(good))
                    ctx.violation(f"roundtrip:icdf(cdf):{family}", f"x={xm[i]!r} icdf(cdf(x))={xx[i]!r} tol={tol[i]:.3g} params={params}")
    if ok and vm and oki:
        okr, cc = ctx.call("cdf(icdf):VonMises", d.cdf, xi)
        if okr and not np.all(np.abs(np.asarray(cc) - qs) <= 1e-9):
            ctx.violation("roundtrip:cdf(icdf):VonMises", f"p={qs.tolist()} -> {np.asarray(cc).tolist()} params={params}")

    # limits and outside-support behaviour
    if not vm:
        outs = []
        if np.isfinite(lower):
            span = max(abs(lower), 1.0)
            outs = [lower - 1e-9 * span, lower - 1e-3 * span, lower - 1.0, lower - 1e6]
            if lower > 0:
                outs += [0.0]
            if lower >= 0:
                outs += [-1.0, -0.0]
            outs = [o for o in outs if o < lower] or [lower - 1.0]
            okc, c0 = ctx.call(f"cdf_outside:{family}", d.cdf, np.array(outs))
            if okc and np.any(np.asarray(c0) != 0):
                ctx.violation(f"support:cdf:{family}", f"cdf below support != 0: x={outs} -> {np.asarray(c0).tolist()} params={params}")
            okf, f0 = ctx.call(f"pdf_outside:{family}", d.pdf, np.array(outs))
            if okf and np.any(np.asarray(f0) != 0):
                ctx.violation(f"support:pdf:{family}", f"pdf below support != 0: x={outs} -> {np.asarray(f0).tolist()} params={params}")
            # exactly on the support boundary (zero wave heights, a grid starting at 0): a number, not NaN, not negative
            # (+inf is the honest value where the density diverges, 0 is what some families return)
            for form, arg in (("scalar", float(lower)), ("ndarray", np.array([lower, float(x[len(x) // 2])])), ("list", [float(lower)])):
                okb, fb = ctx.call(f"pdf_at_lower:{family}:{form}", d.pdf, arg)
                if okb and (np.any(np.isnan(np.asarray(fb, dtype=float))) or np.any(np.asarray(fb, dtype=float) < 0)):
                    ctx.violation(f"support:pdf_at_lower:{family}", f"pdf({form} {arg!r}) = {np.asarray(fb).tolist()} on the support boundary params={params}")
                    break
            okc, cl = ctx.call(f"cdf_at_lower:{family}", d.cdf, lower)
            if okc and float(cl) != 0.0:
                ctx.violation(f"support:cdf_at_lower:{family}", f"cdf(lower)={cl!r} params={params}")
        okc, ends = ctx.call(f"cdf_limits:{family}", d.cdf, np.array([-1e300, 1e300]))
        if okc and (float(ends[0]) != 0.0 or float(ends[1]) != 1.0):
            ctx.violation(f"limits:cdf:{family}", f"cdf(-1e300, 1e300) = {np.asarray(ends).tolist()} params={params}")

    # pdf is the derivative of cdf: integral of pdf over a bulk interval == cdf difference
    if okp and ok:
        bulk = np.nonzero((qs >= 0.02) & (qs <= 0.98))[0]
        if len(bulk) >= 2:
            a, b = x[bulk[0]], x[bulk[-1]]
            if b > a:
                if vm:
                    edges = np.linspace(a, b, 33)
                else:
                    qe = np.linspace(qs[bulk[0]], qs[bulk[-1]], 33)
                    edges = np.asarray(F.ref(family, "icdf", qe, params), dtype=float)
                    edges[0], edges[-1] = a, b
                try:
                    if np.isfinite(lower) and not vm and a > lower:
                        # integrate in t = log(x - lower): power-law behaviour at the support
                        # boundary becomes a smooth exponential
                        le = np.log(edges - lower)
                        integ = gl_integral(
                            lambda t: np.asarray(d.pdf(lower + np.exp(t)), dtype=float) * np.exp(t), le[0], le[-1], le
                        )
                    else:
                        integ = gl_integral(lambda t: np.asarray(d.pdf(t), dtype=float), a, b, edges)
                    diff = float(d.cdf(b)) - float(d.cdf(a))
                    if not abs(integ - diff) <= 1e-7 * max(abs(diff), 1e-3) + (vm_atol if vm else 0):
                        ctx.violation(f"derivative:{family}", f"int pdf[{a!r},{b!r}]={integ!r} cdf diff={diff!r} params={params}")
                except Exception as e:  # noqa: BLE001
                    ctx.violation(f"raises:derivative:{family}:{type(e).__name__}", str(e))


def strat_formula(tier):
    return st.builds(
        lambda fp, qs: dict(family=fp["family"], params=fp["params"], qs=qs),
        fam.family_params(fam.ALL, wide=True),
        QS,
    )


# ----------------------------------------------------------------------- part: override
def check_override(case, ctx):
    family, base, new, subset, method = case["family"], case["base"], case["new"], case["subset"], case["method"]
    names = F.param_names(family)
    merged = dict(base)
    passed = {}
    for n in subset:
        merged[n] = new[n]
        passed[n] = new[n]
    if case.get("int_typed"):
        # integer-typed explicit values (lambda_=2, kappa=np.int64(3), mu=0): same meaning as the float
        for i, n in enumerate(subset):
            iv = int(round(new[n]))
            if n not in ("mu", "loc", "gamma") or family in ("LogNormalNormFit",):
                iv = max(1, iv)
            merged[n] = float(iv)
            passed[n] = iv if i % 2 == 0 else np.int64(iv)
    ctx.cls(f"{family}/{method}/{'+'.join(subset)}", f"passing={case['passing']}", f"int_typed={bool(case.get('int_typed'))}")
    qs, x = xs_for(family, merged, case["qs"])
    fin = np.isfinite(x)
    qs, x = qs[fin], x[fin]
    if len(x) == 0:
        return
    arg = qs if method == "icdf" else x
    if np.sum((qs >= 0.01) & (qs <= 0.99)) >= 3:
        ctx.nontrivial()
    d_base = build.dist(family, None if case.get("from_default") and set(subset) == set(names) else base)
    d_new = build.dist(family, merged)
    expected = np.asarray(getattr(d_new, method)(arg), dtype=float)
    if case["passing"] == "kw":
        a, k = (), {n: passed[n] for n in subset}
    else:
        a, k = tuple(passed[n] if n in subset else None for n in names), {}
    try:
        got = np.asarray(getattr(d_base, method)(arg, *a, **k), dtype=float)
    except RuntimeError as e:
        if family == "LogNormalNormFit" and len(subset) == 1:
            ctx.rejected_by_contract()  # documented: both or none
            return
        ctx.violation(f"raises:override:{family}:{method}:RuntimeError", str(e))
        return
    except Exception as e:  # noqa: BLE001
        ctx.violation(f"raises:override:{family}:{method}:{type(e).__name__}", str(e))
        return
    if got.shape != expected.shape or not close(got, expected, 1e-13, 0).all():
        ctx.violation(
            f"override:{family}:{method}:{'+'.join(subset)}",
            f"base={base} explicit={ {n: merged[n] for n in subset} } passing={case['passing']} x={arg.tolist()} got={got.tolist()} expected={expected.tolist()}",
        )
    # seeded sampling with explicit parameters == sampling from the constructed instance
    if method == "cdf":
        try:
            s_got = np.asarray(d_base.draw_sample(7, *a, **k, random_state=12345), dtype=float)
            s_exp = np.asarray(d_new.draw_sample(7, random_state=12345), dtype=float)
            if s_got.shape != s_exp.shape or not np.allclose(s_got, s_exp, rtol=1e-13, atol=0):
                ctx.violation(f"override:{family}:draw_sample:{'+'.join(subset)}", f"base={base} explicit={ {n: merged[n] for n in subset} }: {s_got[:3].tolist()} vs {s_exp[:3].tolist()}")
        except RuntimeError:
            if not (family == "LogNormalNormFit" and len(subset) == 1):
                raise
        except Exception as e:  # noqa: BLE001
            ctx.violation(f"raises:override:{family}:draw_sample:{type(e).__name__}", str(e)[:200])
    # the call must not have changed the instance
    if d_base.parameters != (build.dist(family, None if case.get("from_default") and set(subset) == set(names) else base)).parameters:
        ctx.violation(f"override_mutates:{family}:{method}", f"{d_base.parameters}")


def strat_override(tier):
    def mk(family):
        names = F.param_names(family)
        return st.builds(
            lambda base, new, subset, method, qs, passing, from_default, int_typed: dict(
                family=family, base=base, new=new, subset=sorted(subset, key=names.index), method=method, qs=qs,
                passing=passing, from_default=from_default, int_typed=int_typed,
            ),
            fam.WIDE[family](),
            fam.WIDE[family](),
            st.one_of(
                st.sampled_from(names).map(lambda n: [n]),
                st.just(list(names)),
                st.lists(st.sampled_from(names), min_size=1, max_size=len(names), unique=True),
            ),
            st.sampled_from(["cdf", "icdf", "pdf"]),
            QS,
            st.sampled_from(["kw", "kw", "pos"]),
            st.booleans(),
            st.sampled_from([False, False, True]),
        )

    return st.sampled_from(fam.ALL).flatmap(mk)


# -------------------------------------------------------------------------- part: forms
def check_forms(case, ctx):
    family, params, method = case["family"], case["params"], case["method"]
    ctx.cls(f"{family}/{method}")
    d = build.dist(family, params)
    if case.get("ints"):
        vals = [int(v) for v in case["ints"]]
        arr = np.array([float(v) for v in vals])
        forms = {
            "int_list": list(vals),
            "int_ndarray": np.array(vals, dtype=int),
            "int_scalar": None,
        }
    else:
        qs, x = xs_for(family, params, case["qs"])
        x = x[np.isfinite(x)]
        if len(x) == 0:
            return
        arr = qs[: len(x)] if method == "icdf" else x
        vals = [float(v) for v in arr]
        forms = {
            "list": list(vals),
            "tuple": tuple(vals),
            "scalar": None,
            "zero_d": None,
            "readonly": None,
        }
    if method == "icdf" and case.get("ints"):
        return
    ctx.nontrivial(len(vals) >= 2)
    ok, ref = ctx.call(f"forms:ndarray:{family}:{method}", getattr(d, method), np.array(arr, dtype=float))
    if not ok:
        return
    ref = np.asarray(ref, dtype=float)
    if ref.shape != (len(vals),):
        ctx.violation(f"forms:shape:{family}:{method}", f"ndarray in of len {len(vals)} -> shape {ref.shape}")
        return
    for name, val in forms.items():
        try:
            if name in ("scalar", "int_scalar"):
                got = np.array([float(getattr(d, method)(v)) for v in vals])
            elif name == "zero_d":
                got = np.array([float(getattr(d, method)(np.array(v))) for v in vals])
            elif name == "readonly":
                ro = np.array(arr, dtype=float)
                ro.flags.writeable = False
                got = np.asarray(getattr(d, method)(ro), dtype=float)
            else:
                got = np.asarray(getattr(d, method)(val), dtype=float)
        except Exception as e:  # noqa: BLE001
            ctx.violation(f"forms:raises:{family}:{method}:{name}:{type(e).__name__}", f"{type(e).__name__}: {e} input={val if val is not None else vals}")
            continue
        if got.shape != ref.shape or not close(got, ref, 1e-14, 0).all():
            ctx.violation(f"forms:differs:{family}:{method}:{name}", f"{name} -> {got.tolist()} but ndarray -> {ref.tolist()} x={vals} params={params}")


def strat_forms(tier):
    base = st.builds(
        lambda fp, qs, method: dict(family=fp["family"], params=fp["params"], qs=qs, method=method),
        fam.family_params(fam.ALL, wide=True),
        QS,
        st.sampled_from(["cdf", "icdf", "pdf"]),
    )
    ints = st.builds(
        lambda fp, ints, method: dict(family=fp["family"], params=fp["params"], ints=ints, method=method),
        fam.family_params(fam.ALL, wide=True),
        st.lists(st.integers(-3, 30), min_size=1, max_size=6),
        st.sampled_from(["cdf", "pdf"]),
    )
    return st.one_of(base, base, ints)


PARTS = [
    Part("formula", check_formula, strat_formula, quick=6000, thorough=150000, min_nontrivial_frac=0.3),
    Part("override", check_override, strat_override, quick=8000, thorough=200000, min_nontrivial_frac=0.3),
    Part("forms", check_forms, strat_forms, quick=4000, thorough=100000, min_nontrivial_frac=0.3),
]
