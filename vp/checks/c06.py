"""C06 - joint density factorises hierarchically; cdf and marginals are its integrals."""

import math

import numpy as np
from hypothesis import strategies as st

from vp.runner import Part, time_limit, CaseTimeout
from vp.gen import models, families as fam
from vp.oracles import refmodel, refint, formulas as F, statbounds as sb
from vp import build

ID = "C06"
LEVEL = "exploration"
RULE = (
    "Hypothesis draws 2-4-D hierarchical model specs over the non-negative families (every conditional_on structure, constructed "
    "dependence shapes) and evaluation points in quantile coordinates (bulk and tails). Oracles: (pdf) model.pdf == product of the "
    "documented conditional densities evaluated from the spec, identical for row/list/array/integer input forms; (norm) nested "
    "Gauss-Legendre integral of model.pdf == 1; (cdf) model.cdf == nested 1-D quadrature over the ancestor chain using conditional cdfs; "
    "(marg) marginal_pdf/marginal_cdf == the same ancestor-chain integrals, marginal_icdf exact for unconditional variables and inside "
    "the Beta order-statistic interval (error prob 1e-12) for Monte-Carlo ones. Non-trivial: a dependent parameter varying >= 10 % and "
    "pdf > 1e-300 at an evaluated point."
)
ASSUMPTIONS = [
    "reference conditional pdf/cdf/icdf are the documented formulas (C05 decides them against virocon)",
    "model.cdf costs seconds (2-D) to minutes (3-D) per point: quick explores 2-D points only, thorough a few 3-D points; a single quadrature call of the code under test that exceeds 45 s wall clock is abandoned and counted as inconclusive (class timeout:*)",
    "quadrature references: scipy.integrate.quad panel-wise between reference quantiles, accepted error <= 1e-7",
    "marginal_icdf of a conditional variable is Monte-Carlo (global numpy RNG, seeded by the harness): judged by the order-statistic Beta interval at the sample size the code documents",
]

NONNEG = ["Weibull", "LogNormal", "ExponentiatedWeibull", "GeneralizedGamma", "LogNormalNormFit"]
CALL_BUDGET_S = 45  # wall-clock budget of one virocon quadrature call; exceeding it is inconclusive (counted), never a violation


def nonneg_model(n_dims):
    return models.model_spec(
        n_dims=n_dims, leaf_families=NONNEG, conditioner_families=NONNEG, allow_scipy=False, allow_normal_conditioner=False,
        bounded_shapes=True,  # virocon integrates to infinity: parameters must stay admissible for every x >= 0
    )


def _snap_slivers(spec):
    """A fixed Weibull location 0 < gamma < 0.25 leaves a sliver [0, gamma) without density at the left end of virocon's
    integration interval [0, x]; for beta <= 1 the density jumps at gamma. QUADPACK has no node inside a sliver of
    a fraction of a percent of the interval, integrates as if the density continued and reports a small error
    (observed 1.7e-5 for gamma = 6e-5): that is the stated 'quadrature error' of the property, not a defect, so
    the quadrature-compared parts use gamma = 0 or gamma >= 0.25 (dependent locations keep their full range)."""
    out = []
    for lvl in spec:
        lvl = dict(lvl)
        if lvl["family"] == "Weibull":
            for key in ("params", "fixed"):
                if lvl.get(key) and 0 < lvl[key].get("gamma", 0) < 0.25:
                    lvl[key] = dict(lvl[key], gamma=0.0)
        out.append(lvl)
    return out


def quad_model(n_dims):
    return nonneg_model(n_dims).map(_snap_slivers)


def peak_missed(got, ref):
    """virocon's nquad over [0, inf) returned (almost) nothing where the exact integral is substantial: the integrand
    is a narrow peak far from 0 that QUADPACK's nodes miss (known finding KF-C06-1); a wrong factor, limit or argument
    order gives O(1) relative errors in most cases instead, and the incidence of this signature is bounded (RATE_LIMITS)"""
    got, ref = np.asarray(got, dtype=float), np.asarray(ref, dtype=float)
    off = ~close(got, ref, 2e-4, 2e-6)
    return bool(np.all(np.isfinite(got)) and np.all(got >= 0) and off.any() and np.all(got[off] < 1e-2 * ref[off]) and np.all(ref[off] > 1e-8))


def is_nontrivial(spec):
    rng = refmodel.approx_range(spec)
    return max(refmodel.dependence_variation(spec, i, rng) for i in range(len(spec))) >= 0.1


def points_from_u(spec, us):
    U = np.clip(np.asarray(us, dtype=float), 1e-12, 1 - 1e-12)
    return refmodel.inverse_rosenblatt(spec, U)


def close(a, b, rtol, atol=0.0):
    a = np.asarray(a, dtype=float)
    b = np.asarray(b, dtype=float)
    with np.errstate(all="ignore"):
        return (np.abs(a - b) <= rtol * np.maximum(np.abs(a), np.abs(b)) + atol) | (a == b) | (np.isnan(a) & np.isnan(b))


# ----------------------------------------------------------------------------- part pdf
def check_pdf(case, ctx):
    spec = case["model"]
    n = len(spec)
    for c in models.spec_classes(spec):
        ctx.cls(c)
    X = points_from_u(spec, case["us"])
    X = X[np.all(np.isfinite(X), axis=1)]
    if len(X) == 0:
        return
    model = build.model(spec)
    ref = refmodel.pdf(spec, X)
    ctx.nontrivial(is_nontrivial(spec) and np.any(ref > 1e-300))
    ok, got = ctx.call("pdf:array", model.pdf, X.copy())
    if not ok:
        return
    got = np.asarray(got)
    if got.shape != (len(X),):
        ctx.violation("pdf:shape", f"input {X.shape} -> output {got.shape}")
        return
    good = close(got, ref, 1e-9, 1e-300)
    if not good.all():
        i = int(np.argmin(good))
        # which factor is off?
        facs = [float(refmodel.level_fun(spec, k, "pdf", X[i, k], None if spec[k].get("conditional_on") is None else X[i, spec[k]["conditional_on"]])) for k in range(n)]
        ctx.violation(
            f"pdf:factorisation:{n}d:{refmodel.structure_name(spec)}",
            f"x={X[i].tolist()} model.pdf={got[i]!r} reference product={ref[i]!r} factors={facs} conditional_on={[l.get('conditional_on') for l in spec]}",
        )
    if np.any(got < 0):
        ctx.violation("pdf:negative", f"{got.tolist()}")
    # input forms
    forms = {
        "list_of_lists": [list(map(float, r)) for r in X],
        "row_ndarray": X[0].copy(),
        "row_list": [float(v) for v in X[0]],
        "row_2d": X[:1].copy(),
    }
    for name, val in forms.items():
        okf, g = ctx.call(f"pdf:form:{name}", model.pdf, val)
        if not okf:
            continue
        exp = got if name == "list_of_lists" else got[:1]
        if np.shape(g) != np.shape(exp) or not close(g, exp, 1e-13, 0).all():
            ctx.violation(f"pdf:form_differs:{name}", f"{name} -> {np.asarray(g).tolist()} but array -> {exp.tolist()}")
    # integer-valued points (a list of ints is array_like too)
    Xi = np.maximum(np.round(X), 1.0)
    if not np.all(Xi < 2.0**62):  # beyond int64: the cast itself would wrap (harness, not virocon)
        ctx.cls("int_forms_skipped:beyond_int64")
        return
    ok1, gi = ctx.call("pdf:int_valued_float", model.pdf, Xi.astype(float))
    for name, val in (("int_ndarray", Xi.astype(int)), ("int_row_list", [int(v) for v in Xi[0]])):
        ok2, gj = ctx.call(f"pdf:form:{name}", model.pdf, val)
        if ok1 and ok2:
            exp = np.asarray(gi) if name == "int_ndarray" else np.asarray(gi)[:1]
            if np.shape(gj) != np.shape(exp) or not close(gj, exp, 1e-13, 0).all():
                ctx.violation(f"pdf:form_differs:{name}", f"{name} {np.asarray(val).tolist()} -> {np.asarray(gj).tolist()} but float -> {exp.tolist()}")


def strat_pdf(tier):
    @st.composite
    def s(draw):
        spec = draw(nonneg_model((2, 3, 3, 4)))
        n = len(spec)
        lvl = st.one_of(st.floats(0.02, 0.98), st.sampled_from([1e-6, 1e-3, 1 - 1e-3, 1 - 1e-6]))
        us = draw(st.lists(st.lists(lvl, min_size=n, max_size=n), min_size=1, max_size=6))
        return dict(model=spec, us=us)

    return s()


# ---------------------------------------------------------------------------- part norm
_Q_EDGES = np.array([1e-9, 1e-6, 1e-4, 1e-3, 0.01, 0.05, 0.15, 0.3, 0.5, 0.7, 0.85, 0.95, 0.99, 0.999, 1 - 1e-4, 1 - 1e-6, 1 - 1e-9])
_GLX, _GLW = np.polynomial.legendre.leggauss(10)


def _nodes_1d(spec, i, given):
    """log-space Gauss-Legendre nodes/weights over the support of level i (arrays over `given`)."""
    # edges: shape (E,) or (E, m)
    g = None if given is None else np.asarray(given, dtype=float)
    edges = np.stack([refmodel.level_fun(spec, i, "icdf", q, g) for q in _Q_EDGES], axis=0)
    p = refmodel.level_params(spec[i], g)
    lower = F.FAMILIES[spec[i]["family"]]["lower"](p)
    lower = np.broadcast_to(np.asarray(lower, dtype=float), edges.shape[1:])
    le = np.log(edges - lower)  # (E, ...)
    h = (le[1:] - le[:-1]) / 2
    m = (le[1:] + le[:-1]) / 2
    t = m[:, None] + h[:, None] * _GLX.reshape((1, -1) + (1,) * (le.ndim - 1))  # (E-1, G, ...)
    x = lower + np.exp(t)
    w = h[:, None] * _GLW.reshape((1, -1) + (1,) * (le.ndim - 1)) * np.exp(t)
    shp = (-1,) + le.shape[1:]
    return x.reshape(shp), w.reshape(shp)


def check_norm(case, ctx):
    spec = case["model"]
    n = len(spec)
    for c in models.spec_classes(spec):
        ctx.cls(c)
    ctx.nontrivial(is_nontrivial(spec))
    model = build.model(spec)
    # build the node tensor dimension by dimension: each level's nodes depend on its parent's nodes
    N = None
    cols = []
    weights = None
    for i in range(n):
        j = spec[i].get("conditional_on")
        if j is None:
            x, w = _nodes_1d(spec, i, None)  # (K,)
            if N is None:
                cols = [x]
                weights = w
            else:
                K = len(x)
                cols = [np.repeat(c, K) for c in cols] + [np.tile(x, len(cols[0]))]
                weights = np.repeat(weights, K) * np.tile(w, len(weights))
        else:
            x, w = _nodes_1d(spec, i, cols[j])  # (K, M)
            K = x.shape[0]
            cols = [np.tile(c, K) for c in cols] + [x.reshape(-1)]
            weights = np.tile(weights, K) * w.reshape(-1)
        N = len(cols[0])
        if N > 4_000_000:
            return
    X = np.stack(cols, axis=1)
    if not (np.all(np.isfinite(X)) and np.all(np.isfinite(weights))):
        # a panel edge coincides with the support boundary in double precision (location >> scale * q^(1/beta))
        ctx.cls("norm_skipped:degenerate_panel")
        return
    ok, f = ctx.call("norm:pdf", model.pdf, X)
    if not ok:
        return
    total = float(np.sum(np.asarray(f, dtype=float) * weights))
    ctx.count(0)
    if not abs(total - 1.0) <= 1e-6:
        ctx.violation(f"norm:{n}d", f"integral of model.pdf = {total!r} over {N} Gauss-Legendre nodes")


def strat_norm(tier):
    dims = (2, 2, 3) if tier == "thorough" else (2,)
    return st.builds(lambda m: dict(model=m), nonneg_model(dims))


# ----------------------------------------------------------------------------- part cdf
def check_cdf(case, ctx):
    spec = case["model"]
    n = len(spec)
    for c in models.spec_classes(spec):
        ctx.cls(c)
    ctx.nontrivial(is_nontrivial(spec))
    X = points_from_u(spec, [case["u"]])
    if not np.all(np.isfinite(X)):
        return
    x = X[0]
    ref, err = refint.joint_cdf(spec, x)
    if not (err <= 1e-7):
        ctx.note(f"reference quadrature error {err:.2g} too large; case skipped")
        return
    model = build.model(spec)
    arg = [float(v) for v in x] if case.get("as_list") else x.copy()
    try:
        with time_limit(CALL_BUDGET_S):
            ok, got = ctx.call("cdf", model.cdf, arg)
    except CaseTimeout:
        ctx.cls("timeout:cdf")
        return
    if not ok:
        return
    got = np.asarray(got, dtype=float)
    if got.shape != (1,):
        ctx.violation("cdf:shape", f"{got.shape}")
        return
    if not abs(float(got[0]) - ref) <= 2e-6:
        ctx.violation(
            f"cdf:{n}d:{refmodel.structure_name(spec)}",
            f"x={x.tolist()} model.cdf={float(got[0])!r} reference={ref!r} (quadrature err {err:.2g}) conditional_on={[l.get('conditional_on') for l in spec]}",
        )


def strat_cdf2(tier):
    return st.builds(
        lambda m, u, as_list: dict(model=m, u=u, as_list=as_list),
        quad_model((2,)),
        # (not closer to the support boundary than the 3 % quantile: virocon integrates from 0, and QUADPACK cannot see a
        # sliver of support that is a fraction of a percent of the integration interval)
        st.lists(st.one_of(st.floats(0.05, 0.95), st.sampled_from([0.03, 0.97, 0.999])), min_size=2, max_size=2),
        st.booleans(),
    )


def strat_cdf3(tier):
    return st.builds(
        lambda m, u: dict(model=m, u=u, as_list=False),
        quad_model((3,)),
        st.lists(st.floats(0.2, 0.9), min_size=3, max_size=3),
    )


def strat_cdf3_cheap(tier):
    """3-D cdf in the quick tier: smooth shape-2..3 Weibull levels (a 3-fold nquad of these takes seconds, the general
    3-D case minutes); chain [None, 0, 1] and star [None, 0, 0] structures"""
    def lvl(j):
        return st.builds(
            lambda a, b, beta: dict(family="Weibull", conditional_on=j, fixed=dict(beta=beta, gamma=0.0), dependent=dict(alpha=dict(shape="linear2", coef=[a, b]))),
            st.floats(0.8, 2.0).map(lambda v: round(v, 3)), st.floats(0.2, 0.8).map(lambda v: round(v, 3)), st.sampled_from([2.0, 2.5, 3.0]),
        )

    return st.builds(
        lambda a0, b0, l1, chain, l2c, l2s, u: dict(
            model=[dict(family="Weibull", params=dict(alpha=a0, beta=b0, gamma=0.0)), l1, (l2c if chain else l2s)], u=u, as_list=False),
        st.floats(1.0, 3.0).map(lambda v: round(v, 3)), st.sampled_from([1.5, 2.0, 3.0]), lvl(0), st.sampled_from([True, True, False]), lvl(1), lvl(0),
        st.lists(st.floats(0.3, 0.9), min_size=3, max_size=3),
    )


# ---------------------------------------------------------------------------- part marg
def check_marg(case, ctx):
    spec, dim = case["model"], case["dim"]
    n = len(spec)
    dim = dim % n
    for c in models.spec_classes(spec):
        ctx.cls(c)
    conditional = spec[dim].get("conditional_on") is not None
    ctx.cls(f"marg_dim={'conditional' if conditional else 'unconditional'}")
    ctx.nontrivial(is_nontrivial(spec) and conditional)
    model = build.model(spec)
    rng = refmodel.approx_range(spec)
    lo, hi = rng[dim]
    xs = np.array([lo + f * (hi - lo) for f in case["fracs"]], dtype=float)
    # reference marginal pdf / cdf
    refs_pdf, refs_cdf = [], []
    for x in xs:
        v, e = refint.marginal(spec, dim, float(x), "pdf")
        c, e2 = refint.marginal(spec, dim, float(x), "cdf")
        if not (e <= 1e-7 and e2 <= 1e-7):
            ctx.note(f"reference quadrature error {max(e, e2):.2g} too large; case skipped")
            return
        refs_pdf.append(v)
        refs_cdf.append(c)
    refs_pdf, refs_cdf = np.array(refs_pdf), np.array(refs_cdf)
    for label, arg in (("float", xs.copy()), ("int", None)):
        if label == "int":
            xi = np.unique(np.maximum(np.round(xs), 1).astype(int))
            arg = xi
            rp = np.array([refint.marginal(spec, dim, float(x), "pdf")[0] for x in xi])
            rc = np.array([refint.marginal(spec, dim, float(x), "cdf")[0] for x in xi])
            if not case.get("with_int"):
                continue
        else:
            rp, rc = refs_pdf, refs_cdf
        try:
            with time_limit(CALL_BUDGET_S):
                ok, got = ctx.call(f"marginal_pdf:{label}", model.marginal_pdf, arg, dim)
        except CaseTimeout:
            ctx.cls("timeout:marginal_pdf")
            return
        if ok:
            got = np.asarray(got, dtype=float)
            # nquad's accuracy on integrands with a jump / kink inside the range (a dependent Weibull location
            # crossing x, a conditioner whose support starts above 0) is 1e-5 .. 1e-4 relative (observed 2e-5, 7e-5);
            # a wrong factor, argument order or limit is an O(1e-2 .. 1) error
            if got.shape != rp.shape or not close(got, rp, 2e-4, 1e-7).all():
                if got.shape == rp.shape and peak_missed(got, rp):
                    ctx.violation("marginal_pdf:peak_missed_by_nquad:2d", f"dim={dim} x={np.asarray(arg).tolist()} got={got.tolist()} reference={rp.tolist()} conditional_on={[l.get('conditional_on') for l in spec]}")
                    return
                ctx.violation(f"marginal_pdf:{label}:{'cond' if conditional else 'uncond'}", f"dim={dim} x={np.asarray(arg).tolist()} got={got.tolist()} reference={rp.tolist()} conditional_on={[l.get('conditional_on') for l in spec]}")
        if label == "int":
            continue  # marginal_cdf costs seconds per point: one float point only
        try:
            with time_limit(CALL_BUDGET_S):
                ok, got = ctx.call(f"marginal_cdf:{label}", model.marginal_cdf, arg[:1], dim)
        except CaseTimeout:
            ctx.cls("timeout:marginal_cdf")
            return
        if ok:
            got = np.asarray(got, dtype=float)
            if got.shape != rc[:1].shape or not close(got, rc[:1], 2e-4, 2e-6).all():
                if got.shape == rc[:1].shape and peak_missed(got, rc[:1]):
                    ctx.violation("marginal_cdf:peak_missed_by_nquad:2d", f"dim={dim} x={np.asarray(arg[:1]).tolist()} got={got.tolist()} reference={rc[:1].tolist()} conditional_on={[l.get('conditional_on') for l in spec]}")
                    return
                ctx.violation(f"marginal_cdf:{label}:{'cond' if conditional else 'uncond'}", f"dim={dim} x={np.asarray(arg[:1]).tolist()} got={got.tolist()} reference={rc[:1].tolist()} conditional_on={[l.get('conditional_on') for l in spec]}")
    # marginal_icdf
    ps = np.array(sorted(case["ps"]), dtype=float)
    np.random.seed(case["seed"] % (2**32))
    if case["seed"] % 3 == 0:
        ok, q = ctx.call("marginal_icdf", model.marginal_icdf, ps, dim)
        ctx.cls("marginal_icdf:random_state=None")
    else:
        # Monte-Carlo quantiles from an explicitly seeded sample (int seeds, 0 and 1 included): same statistical claim
        rs = {1: 0, 2: 1}.get(case["seed"] % 7, case["seed"] % (2**31))
        ok, q = ctx.call("marginal_icdf", lambda: model.marginal_icdf(ps, dim, random_state=rs))
        ctx.cls("marginal_icdf:random_state=int")
    if ok:
        q = np.asarray(q, dtype=float)
        if q.shape != ps.shape:
            ctx.violation("marginal_icdf:shape", f"{q.shape} for p of shape {ps.shape}")
        elif not conditional:
            exp = np.asarray(model.distributions[dim].icdf(ps), dtype=float)
            if not close(q, exp, 1e-13, 0).all():
                ctx.violation("marginal_icdf:unconditional", f"p={ps.tolist()} got={q.tolist()} icdf={exp.tolist()}")
        else:
            p_small = min(ps.min(), 1 - ps.max())
            nsamp = max(int((1 / p_small) * 100), 100000)
            for p, xq in zip(ps, q):
                Fq, e = refint.marginal(spec, dim, float(xq), "cdf")
                lo_, hi_ = sb.quantile_prob_interval(float(p), nsamp)
                if not (lo_ - 1e-7 <= Fq <= hi_ + 1e-7):
                    ctx.violation("marginal_icdf:montecarlo", f"dim={dim} p={p!r}: F_marginal(marginal_icdf(p))={Fq!r} outside [{lo_!r},{hi_!r}] (n={nsamp})")


def strat_marg(tier):
    dims = (2, 2, 2, 3) if tier == "thorough" else (2,)
    return st.builds(
        lambda m, dim, fr, ps, seed, wi: dict(model=m, dim=dim, fracs=fr, ps=ps, seed=seed, with_int=wi),
        quad_model(dims),
        st.sampled_from([1, 1, 1, 0, 2]),
        st.lists(st.floats(0.05, 0.9), min_size=2, max_size=2, unique=True),
        st.lists(st.floats(0.002, 0.998), min_size=1, max_size=3, unique=True),
        st.integers(0, 2**31 - 1),
        st.booleans(),
    )


# ------------------------------------------------------------------------ part marg3d
def check_marg3d(case, ctx):
    """marginal_pdf of a conditional variable of a 3-D model (also the middle one): the argument
    reordering of the nquad wrapper only matters for more than two variables"""
    spec = case["model"]
    dim = case["dim"]
    for c in models.spec_classes(spec):
        ctx.cls(c)
    if spec[dim].get("conditional_on") is None:
        cands = [k for k in range(len(spec)) if spec[k].get("conditional_on") is not None]
        if not cands:
            return
        dim = cands[case["dim"] % len(cands)]
    ctx.cls(f"marg3d_dim={dim}", f"position={'last' if dim == len(spec) - 1 else 'middle'}", "marg3d_case")
    ctx.nontrivial(is_nontrivial(spec))
    rng = refmodel.approx_range(spec)
    lo, hi = rng[dim]
    x = np.array([lo + case["frac"] * (hi - lo)], dtype=float)
    ref, err = refint.marginal(spec, dim, float(x[0]), "pdf")
    if not err <= 1e-7:
        return
    model = build.model(spec)
    try:
        with time_limit(CALL_BUDGET_S):
            ok, got = ctx.call("marginal_pdf:3d", model.marginal_pdf, x.copy(), dim)
    except CaseTimeout:
        ctx.cls("timeout:marginal_pdf3d")
        return
    if ok:
        got = np.asarray(got, dtype=float)
        # nested nquad: every inner integral is only good to its absolute tolerance 1.49e-8, integrated over an outer
        # range of length ~10-30 (observed 4.5e-7 absolute on a value of 1.9e-3)
        if got.shape != (1,) or not close(got, [ref], 2e-4, 2e-6).all():
            if got.shape == (1,) and peak_missed(got, np.array([ref])):
                ctx.violation("marginal_pdf:peak_missed_by_nquad:3d", f"dim={dim} x={x.tolist()} got={got.tolist()} reference={ref!r} conditional_on={[l.get('conditional_on') for l in spec]}")
                return
            ctx.violation(f"marginal_pdf:3d:dim{dim}:{refmodel.structure_name(spec)}", f"dim={dim} x={x.tolist()} got={got.tolist()} reference={ref!r} conditional_on={[l.get('conditional_on') for l in spec]}")


def strat_marg3d(tier):
    return st.builds(
        lambda m, dim, fr: dict(model=m, dim=dim, frac=fr),
        quad_model((3,)),
        st.sampled_from([1, 1, 2]),
        st.floats(0.15, 0.7),
    )


# (signature prefix, class whose count is the denominator, max fraction, min denominator)
RATE_LIMITS = [
    ("marginal_pdf:peak_missed_by_nquad:2d", "marg/marg_dim=conditional", 0.10, 20),
    ("marginal_cdf:peak_missed_by_nquad:2d", "marg/marg_dim=conditional", 0.10, 20),
    ("marginal_pdf:peak_missed_by_nquad:3d", "marg3d/marg3d_case", 0.15, 12),
]

PARTS = [
    Part("pdf", check_pdf, strat_pdf, quick=4000, thorough=100000, min_nontrivial_frac=0.3),
    Part("norm", check_norm, strat_norm, quick=200, thorough=3000, shrink_quick=False),
    Part("cdf2d", check_cdf, strat_cdf2, quick=32, thorough=960, shrink=False, min_per_shard=1),
    Part("cdf3d", check_cdf, strat_cdf3, quick=0, thorough=16, shrink=False, min_per_shard=1),
    Part("cdf3d_cheap", check_cdf, strat_cdf3_cheap, quick=16, thorough=64, shrink=False, min_per_shard=1),
    Part("marg3d", check_marg3d, strat_marg3d, quick=16, thorough=320, shrink=False, min_per_shard=1),
    Part("marg", check_marg, strat_marg, quick=32, thorough=1500, shrink=False, min_per_shard=1),
]
