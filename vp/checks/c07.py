"""C07 - samples follow the model they are drawn from and are reproducible by seed."""

import math

import numpy as np
from hypothesis import strategies as st

from vp.runner import Part
from vp.gen import models, families as fam
from vp.oracles import refmodel, formulas as F, statbounds as sb
from vp import build

ID = "C07"
LEVEL = "exploration"
RULE = (
    "Hypothesis draws (a) a family with parameters and (b) a 2-4 dimensional hierarchical model spec, a sample size and "
    "integer seeds; samples are drawn with random_state None / int / numpy Generator. Oracle: shape, finiteness and support; "
    "the probability-integral (Rosenblatt) transform computed by the harness from the *spec* must be uniform by the DKW bound at "
    "error probability 1e-12, also separately on the rows below / above the conditioner's median (catches a wrong conditioning "
    "column or row), pairwise independent by a Hoeffding bound; seeding relations (same int => bit-identical, identically seeded "
    "Generators => identical, re-used Generator => different, different ints => different, None twice => different); an i.i.d. sample does not repeat rows (distinct rows vs distinct rows of the harness' own inverse-Rosenblatt sample of the same size; model samples reach 1e6 rows in both tiers). "
    "Non-trivial: n >= 5000 (statistical power) and, for models, a dependent parameter varying >= 10 %."
)
ASSUMPTIONS = [
    "reference cdfs are the documented formulas (vp/oracles/formulas.py); the von Mises cdf reference is a 4000-point cumulative Gauss-Legendre table of the documented pdf, compared modulo 2 pi",
    "statistical comparisons use distribution-free DKW/Hoeffding bounds with error probability 1e-12 per comparison; draws are seeded so a run is deterministic",
    "sample sizes up to 2e5 (quick; joint models also 250000 .. 1e6 in 1/9 of the cases) / 1e6 (thorough)",
    "'bit-for-bit' reproduction is judged at rtol 1e-9 (plus 1e-9 of the sample's magnitude): numpy's vectorised exp/log/pow kernels round the last bit differently depending on buffer alignment, so two identical calls can differ by 1 ulp in a few entries, which the inverse cdf of a dependent variable amplifies to ~1e-14 (observed on this platform); a different random stream differs in every digit",
]

_GLX, _GLW = np.polynomial.legendre.leggauss(8)


def vm_cdf_table(kappa, mu, x):
    """cdf of the wrapped value on [mu-pi, mu+pi) by a cumulative quadrature table"""
    edges = np.linspace(mu - math.pi, mu + math.pi, 4001)
    h = (edges[1:] - edges[:-1]) / 2
    mid = (edges[1:] + edges[:-1]) / 2
    nodes = mid[:, None] + h[:, None] * _GLX[None, :]
    panel = np.sum(h[:, None] * _GLW[None, :] * F.vm_pdf(nodes, kappa, mu), axis=1)
    cum = np.concatenate([[0.0], np.cumsum(panel)])
    cum /= cum[-1]
    xw = (np.asarray(x, dtype=float) - mu + math.pi) % (2 * math.pi) + mu - math.pi
    return np.interp(xw, edges, cum)


def pit(family, params, x):
    if family == "VonMises":
        k = np.broadcast_to(np.asarray(params["kappa"], dtype=float), np.shape(x))
        m = np.broadcast_to(np.asarray(params["mu"], dtype=float), np.shape(x))
        if np.ptp(k) == 0 and np.ptp(m) == 0:
            return vm_cdf_table(float(k.flat[0]), float(m.flat[0]), x)
        # varying parameters: bin the parameter values (table per distinct rounded pair)
        out = np.empty(np.shape(x))
        kk = np.round(k, 3)
        mm = np.round(m, 3)
        keys = np.unique(np.c_[kk, mm], axis=0)
        if len(keys) > 400:
            return None
        for a, b in keys:
            sel = (kk == a) & (mm == b)
            out[sel] = vm_cdf_table(float(a), float(b), np.asarray(x)[sel])
        return out
    return np.asarray(F.ref(family, "cdf", x, params), dtype=float)


def rs_of(kind, seed):
    if kind == "none":
        return None
    if kind == "int":
        return int(seed)
    return np.random.default_rng(int(seed))


def same_draws(a, b):
    """identical up to the last-bit differences numpy's SIMD kernels (exp/log/pow) show between two identical
    calls depending on buffer alignment; a different random stream differs in every digit"""
    a, b = np.asarray(a, dtype=float), np.asarray(b, dtype=float)
    if a.shape != b.shape:
        return False
    # last-bit differences of a conditioning value are amplified by the inverse cdf of the dependent variable
    # (observed: 1e-14 relative in a third variable after two conditional levels), hence 1e-9 and a floor
    # relative to the magnitude of the sample for values that cancel to ~0
    fin = np.abs(a[np.isfinite(a)])
    floor = 1e-9 * float(fin.max()) if fin.size else 0.0
    return bool(np.allclose(a, b, rtol=1e-9, atol=floor, equal_nan=True))


def seeding_checks(ctx, tag, draw, seed, other_seed, n):
    """draw(random_state) -> sample"""
    a = draw(int(seed))
    b = draw(int(seed))
    if not same_draws(a, b):
        a_, b_ = np.asarray(a, dtype=float), np.asarray(b, dtype=float)
        diff = a_ != b_
        cols = np.nonzero(diff.any(axis=0))[0].tolist() if a_.ndim == 2 else []
        ctx.violation(f"seed:int_not_reproducible:{tag}", f"seed={seed} n={n}: {int(diff.sum())} entries differ (columns {cols}), NaNs {int(np.isnan(a_).sum())}/{int(np.isnan(b_).sum())}; first differing {a_[diff][:3].tolist()} vs {b_[diff][:3].tolist()}")
    g1, g2 = np.random.default_rng(int(seed)), np.random.default_rng(int(seed))
    c, d = draw(g1), draw(g2)
    if not same_draws(c, d):
        ctx.violation(f"seed:generator_not_reproducible:{tag}", f"seed={seed} n={n}")
    if n >= 2:
        e = draw(g1)  # re-used generator: state must have advanced
        if same_draws(c, e):
            ctx.violation(f"seed:generator_state_not_threaded:{tag}", f"seed={seed} n={n}")
        f_ = draw(int(other_seed))
        if other_seed != seed and same_draws(a, f_):
            ctx.violation(f"seed:different_seeds_same_sample:{tag}", f"seeds={seed},{other_seed} n={n}")
        np.random.seed(int(seed) % (2**32))
        h1 = draw(None)
        h2 = draw(None)
        if same_draws(h1, h2):
            ctx.violation(f"seed:none_repeats:{tag}", f"n={n}")
    return a


# -------------------------------------------------------------------- part: univariate
def check_univariate(case, ctx):
    family, params, n = case["family"], case["params"], case["n"]
    ctx.cls(f"family={family}", f"n_decade={int(math.log10(max(n, 1)))}", f"rs={case['rs']}")
    ctx.nontrivial(n >= 5000)
    d = build.dist(family, params)
    tag = family
    try:
        if case["rs"] == "none":
            np.random.seed(case["seed"] % (2**32))
        x = d.draw_sample(n, random_state=rs_of(case["rs"], case["seed"]))
    except Exception as e:  # noqa: BLE001
        ctx.violation(f"raises:draw_sample:{tag}:{type(e).__name__}", str(e))
        return
    x = np.asarray(x)
    if x.shape != (n,):
        ctx.violation(f"shape:{tag}", f"n={n} -> shape {x.shape}")
        return
    if not np.all(np.isfinite(x)):
        ctx.violation(f"nonfinite:{tag}", f"{int(np.sum(~np.isfinite(x)))} of {n}")
        return
    lower = F.FAMILIES[family]["lower"](params)
    if family != "VonMises" and np.any(x < lower):
        ctx.violation(f"support:{tag}", f"min sample {x.min()!r} below support {lower!r}")
    if n >= 200:
        u = pit(family, params, x)
        D = sb.ks_stat(u)
        eps = sb.dkw_eps(n)
        if D > eps:
            # representability: a draw of loc + 1e-20 is stored as loc itself; for a law with a power-law singularity
            # at its location (shape product 0.12) 1.3 % of the draws collapse onto loc, where the cdf is 0.  The
            # unrounded value lies between the neighbouring floats: judge the ecdf against [F(x-), F(x+)]
            order = np.argsort(x, kind="stable")
            xs = np.asarray(x, dtype=float)[order]
            u_hi = pit(family, params, np.nextafter(xs, np.inf))
            u_lo = pit(family, params, np.nextafter(xs, -np.inf))
            if family == "VonMises":
                u_hi, u_lo = np.sort(u_hi), np.sort(u_lo)
            i = np.arange(1, n + 1)
            D = float(max(np.max(i / n - np.maximum(u_hi, u_lo)), np.max(np.minimum(u_lo, u_hi) - (i - 1) / n)))
        if D > eps:
            ctx.violation(f"dkw:{tag}", f"n={n} sup|ecdf-cdf|={D:.4g} > DKW bound {eps:.4g} params={params}")
    if case["rs"] == "int" and n <= 50000:
        try:
            seeding_checks(ctx, tag, lambda rs: np.asarray(d.draw_sample(n, random_state=rs)), case["seed"], case["seed2"], n)
        except Exception as e:  # noqa: BLE001
            ctx.violation(f"raises:seeding:{tag}:{type(e).__name__}", str(e))


def sizes(tier, large=False):
    big = 200000 if tier == "quick" else 1000000
    opts = [
        st.sampled_from([1, 2, 7, 50, 1000]),
        st.integers(5000, 20000),
        st.integers(5000, 20000),
        st.integers(20000, big),
    ]
    if large:
        # sizes users pass for Monte-Carlo contours (seeded change C07e: block-wise drawing above 250000 rows)
        opts = opts * 2 + [st.sampled_from([250000, 250001, 300000, 524288, 1000000])]
    return st.one_of(*opts)


def strat_univariate(tier):
    return st.builds(
        lambda fp, n, seed, seed2, rs: dict(family=fp["family"], params=fp["params"], n=n, seed=seed, seed2=seed2, rs=rs),
        fam.family_params(fam.ALL, wide=True),
        sizes(tier),
        st.integers(0, 2**31 - 1),
        st.integers(0, 2**31 - 1),
        st.sampled_from(["int", "int", "gen", "none"]),
    )


# --------------------------------------------------------------------------- part: joint
def check_joint(case, ctx):
    spec, n = case["model"], case["n"]
    n_dim = len(spec)
    for c in models.spec_classes(spec):
        ctx.cls(c)
    ctx.cls(f"rs={case['rs']}")
    rng = refmodel.approx_range(spec)
    var = max(refmodel.dependence_variation(spec, i, rng) for i in range(n_dim))
    ctx.nontrivial(n >= 5000 and var >= 0.1)
    model = build.model(spec)
    try:
        if case["rs"] == "none":
            np.random.seed(case["seed"] % (2**32))
        X = model.draw_sample(n, random_state=rs_of(case["rs"], case["seed"]))
    except Exception as e:  # noqa: BLE001
        ctx.violation(f"raises:draw_sample:model:{type(e).__name__}", str(e))
        return
    X = np.asarray(X)
    if X.shape != (n, n_dim):
        ctx.violation("shape:model", f"n={n} n_dim={n_dim} -> {X.shape}")
        return
    if not np.all(np.isfinite(X)):
        ctx.violation("nonfinite:model", f"{int(np.sum(~np.isfinite(X)))} non-finite entries")
        return
    if n >= 5000:
        # an i.i.d. sample of a continuous law does not repeat rows: compared with the harness' own inverse-Rosenblatt sample
        # of the same size (which has the same float representability), never against an absolute count
        d = len(np.unique(X, axis=0))
        if d < 0.9 * n:
            Uref = np.random.default_rng(case["seed2"]).uniform(1e-12, 1 - 1e-12, size=(n, n_dim))
            try:
                d_ref = len(np.unique(refmodel.inverse_rosenblatt(spec, Uref), axis=0))
            except Exception:  # noqa: BLE001
                d_ref = None
            if d_ref is not None and d < 0.6 * d_ref:
                ctx.violation("iid:repeated_rows", f"n={n} rs={case['rs']}: {d} distinct rows, a reference sample of the model has {d_ref}")
        ctx.cls("large_n" if n >= 250000 else "n<250000")
    if n >= 400:
        U = np.empty_like(X, dtype=float)
        usable = [True] * n_dim
        for k in range(n_dim):
            j = spec[k].get("conditional_on")
            p = refmodel.level_params(spec[k], None if j is None else X[:, j])
            u = pit(spec[k]["family"], p, X[:, k])
            if u is None:
                usable[k] = False
                continue
            U[:, k] = u
        eps = sb.dkw_eps(n)
        for k in range(n_dim):
            if not usable[k]:
                continue
            fam_k = spec[k]["family"]
            j = spec[k].get("conditional_on")
            D = sb.ks_stat(U[:, k])
            if D > eps:
                ctx.violation(
                    f"dkw:dim:{'cond' if j is not None else 'marg'}",
                    f"dim {k} ({fam_k}, cond_on={j}) n={n}: sup|ecdf(u)-u|={D:.4g} > {eps:.4g}",
                )
                continue
            if j is not None:
                med = np.median(X[:, j])
                for side, sel in (("below", X[:, j] <= med), ("above", X[:, j] > med)):
                    m = int(sel.sum())
                    if m >= 200:
                        Ds = sb.ks_stat(U[sel, k])
                        if Ds > sb.dkw_eps(m):
                            ctx.violation(
                                "dkw:conditional_split",
                                f"dim {k} ({fam_k}) given dim {j} {side} its median: sup|ecdf(u)-u|={Ds:.4g} > {sb.dkw_eps(m):.4g} (n={m})",
                            )
        # pairwise independence of the Rosenblatt components
        hb = sb.hoeffding_eps(n, 1.0)
        for a in range(n_dim):
            for b in range(a + 1, n_dim):
                if not (usable[a] and usable[b]):
                    continue
                stat = float(np.mean((U[:, a] < 0.5) & (U[:, b] < 0.5))) - 0.25
                if abs(stat) > hb + eps:  # + eps: each margin's own deviation from uniform
                    ctx.violation("independence:quadrant", f"dims {a},{b}: P(u_a<.5,u_b<.5)-1/4={stat:.4g} bound {hb + eps:.4g} n={n}")
                cov = float(np.mean((U[:, a] - 0.5) * (U[:, b] - 0.5)))
                if abs(cov) > sb.hoeffding_eps(n, 0.5) + eps:
                    ctx.violation("independence:covariance", f"dims {a},{b}: mean((u_a-.5)(u_b-.5))={cov:.4g} n={n}")
    if case["rs"] == "int" and n <= 50000:
        try:
            seeding_checks(ctx, "model", lambda rs: np.asarray(model.draw_sample(n, random_state=rs)), case["seed"], case["seed2"], n)
        except Exception as e:  # noqa: BLE001
            ctx.violation(f"raises:seeding:model:{type(e).__name__}", str(e))


def strat_joint(tier):
    return st.builds(
        lambda m, n, seed, seed2, rs: dict(model=m, n=n, seed=seed, seed2=seed2, rs=rs),
        models.model_spec(n_dims=(2, 3, 3, 4)),
        sizes(tier, large=True),
        st.integers(0, 2**31 - 1),
        st.integers(0, 2**31 - 1),
        st.sampled_from(["int", "int", "gen", "none"]),
    )


PARTS = [
    Part("univariate", check_univariate, strat_univariate, quick=4000, thorough=30000, shrink_quick=False, min_nontrivial_frac=0.2),
    Part("joint", check_joint, strat_joint, quick=2500, thorough=14000, shrink_quick=False, min_nontrivial_frac=0.15),
]
