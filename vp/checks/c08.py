"""C08 - a conditional distribution is its template evaluated at the dependence values."""

import math

import numpy as np
from hypothesis import strategies as st

from vp.runner import Part
from vp.gen import models, families as fam
from vp.oracles import refmodel, formulas as F
from vp import build

ID = "C08"
LEVEL = "exploration"
RULE = (
    "Hypothesis draws a template family (7 native + 2 ScipyDistribution subclasses), a partition of its parameters "
    "into fixed and dependent (every non-empty dependent subset), constructed dependence shapes (incl. chained alpha3 "
    "and functions whose coefficients are signature defaults), conditioning values g and quantile levels. Oracle: a fresh "
    "template instance constructed with the parameter values computed from the *spec* (harness evaluation of the shape, never "
    "the DependenceFunction object) gives the same pdf/cdf/icdf (rtol 1e-9: the two routes to the parameter value may differ in the last ulp; vectorised vs one-at-a-time rtol 1e-10 (numpy vector and scalar kernels differ in the last bits)) and the same seeded samples (rtol 1e-11); vectorised == "
    "one-at-a-time; fixed parameters constant in g; part history: evaluate - change the dependence coefficients - evaluate again at the "
    "same scalar conditioning value (a stale cache would serve the old value). Non-trivial: >= 2 distinct g and a dependent parameter varying >= 10 % over them."
)
ASSUMPTIONS = [
    "part history: the dependence functions are changed between evaluations by assigning / updating DependenceFunction.parameters (what a re-fit does); the use_defaults variant is not used there",
    "the template's own methods with constructed parameters are the reference (their formula correctness is C05)",
    "sampling agreement is equality to 1e-11 under the same integer seed; distributional correctness of samples is C07",
]

TEMPLATES = ["Weibull", "LogNormal", "Normal", "ExponentiatedWeibull", "GeneralizedGamma", "LogNormalNormFit", "VonMises", "ScipyGamma", "ScipyGenGamma"]


# shapes a + g(x; b, c, ...): the first coefficient is an additive offset
ADDITIVE_OFFSET = {"const1", "linear2", "poly3", "power3", "exp3", "logistics4", "asymdecrease3"}


def eq(a, b, rtol=1e-13, atol=1e-15, extra=0.0):
    """extra: additional absolute slack per element (conditioning of the evaluated function, see `sensitivity`)"""
    a = np.asarray(a, dtype=float)
    b = np.asarray(b, dtype=float)
    if a.shape != b.shape:
        return False
    with np.errstate(all="ignore"):
        ok = (np.abs(a - b) <= rtol * np.maximum(np.abs(a), np.abs(b)) + atol + extra) | (a == b) | (np.isnan(a) & np.isnan(b))
    return bool(np.all(ok))


ULP = 2.0 ** -52


def sensitivity(family, names, method, theta_j, a):
    """How much `method(a)` of the template moves when every parameter value moves by 2 ulp in either direction,
    times 16: the dependence value virocon computes may legitimately differ from the reference's in the last ulp
    (numpy's scalar and vector kernels), and an ill-conditioned evaluation (pdf of a Weibull a hair above its
    location) amplifies that; a wrong parameter or a wrong given is an O(1) relative change, far outside this."""
    a = np.asarray(a, dtype=float)
    base = np.asarray(getattr(build.dist(family, {k: float(theta_j[k]) for k in names}), method)(a), dtype=float)
    dev = np.zeros_like(base, dtype=float)
    for k in names:
        for sgn in (1.0, -1.0):
            alt = {n: float(theta_j[n]) for n in names}
            alt[k] = alt[k] * (1.0 + sgn * 2 * ULP) if alt[k] != 0 else sgn * 1e-300
            try:
                with np.errstate(all="ignore"):
                    v = np.asarray(getattr(build.dist(family, alt), method)(a), dtype=float)
            except Exception:  # noqa: BLE001
                continue
            d = np.abs(v - base)
            dev = np.maximum(dev, np.where(np.isfinite(d), d, 0.0))
    # the argument itself is passed unchanged, but a location-type shift of 2 ulp of |a| is the same thing
    return 16.0 * dev


def check_conditional(case, ctx):
    lvl, gs, qs, method = case["level"], case["gs"], case["qs"], case["method"]
    family = lvl["family"]
    names = F.param_names(family)
    depset = "+".join(n for n in names if n in lvl["dependent"])
    ctx.cls(f"{family}/{depset}", f"method={method}")
    for d in lvl["dependent"].values():
        ctx.cls(f"shape={d['shape']}" + ("/defaults" if d.get("use_defaults") else ""))
    spec = [dict(family="Weibull", params=dict(alpha=1, beta=1, gamma=0)), lvl]
    g = np.asarray(gs, dtype=float)
    theta = refmodel.level_params(lvl, g)  # reference parameter values from the spec
    theta = {k: np.broadcast_to(np.asarray(v, dtype=float), g.shape).copy() for k, v in theta.items()}
    var = 0.0
    for n in lvl["dependent"]:
        v = theta[n]
        var = max(var, float((v.max() - v.min()) / max(np.abs(v).max(), 1e-12)))
    ctx.nontrivial(len(set(gs)) >= 2 and var >= 0.1)

    from virocon.distributions import ConditionalDistribution

    desc = build.description(spec)[1]
    ok, cond = ctx.call(f"construct:{family}", ConditionalDistribution, desc["distribution"], desc["parameters"])
    if not ok:
        return
    q = np.asarray((qs * (len(g) // len(qs) + 1))[: len(g)], dtype=float)

    def tmpl(j):
        return build.dist(family, {k: float(theta[k][j]) for k in names})

    # evaluation points: quantiles of the reference conditional law
    if family == "VonMises":
        x = theta["mu"] - np.pi + 2 * np.pi * q
    else:
        x = np.array([float(np.asarray(tmpl(j).icdf(q[j]))) for j in range(len(g))])
    arg = q if method == "icdf" else x
    expected = np.array([float(np.asarray(getattr(tmpl(j), method)(arg[j]))) for j in range(len(g))])
    slack = np.array([float(sensitivity(family, names, method, {k: theta[k][j] for k in names}, arg[j])) for j in range(len(g))])
    atol = 1e-14 if method == "cdf" else 1e-15  # scipy's von Mises cdf series leaves 1e-15 noise where the value is 0

    # fixed parameters constant, dependent parameters = shape value
    for j in range(len(g)):
        okp, pv = ctx.call(f"param_values:{family}", cond._get_param_values, float(g[j]))
        if not okp:
            return
        for k in names:
            if not eq(pv[k], theta[k][j], 1e-12):
                kind = "fixed" if k in lvl["fixed"] else "dependent"
                ctx.violation(f"param_value:{kind}:{family}:{k}", f"g={g[j]!r}: {k}={pv[k]!r} expected {theta[k][j]!r} ({lvl['dependent'].get(k) or lvl['fixed'].get(k)})")
                return

    # vectorised call (the IFORM form)
    okv, got = ctx.call(f"vector:{family}:{method}", getattr(cond, method), np.array(arg), given=np.array(g))
    if okv and not eq(got, expected, 1e-9, atol, slack):
        ctx.violation(f"vector:{family}:{method}", f"given={g.tolist()} arg={arg.tolist()} got={np.asarray(got).tolist()} expected={expected.tolist()}")
    # one at a time, scalar given (the ISORM form)
    oks = True
    one = np.empty(len(g))
    for j in range(len(g)):
        oks, v = ctx.call(f"scalar:{family}:{method}", getattr(cond, method), float(arg[j]), given=float(g[j]))
        if not oks:
            break
        one[j] = float(np.asarray(v))
    if oks and not eq(one, expected, 1e-9, atol, slack):
        ctx.violation(f"scalar:{family}:{method}", f"given={g.tolist()} arg={arg.tolist()} got={one.tolist()} expected={expected.tolist()}")
    if okv and oks and not eq(got, one, 1e-10, atol, 2 * slack):
        ctx.violation(f"vector_vs_scalar:{family}:{method}", f"given={g.tolist()} arg={arg.tolist()} vectorised={np.asarray(got).tolist()} one-at-a-time={one.tolist()}")
    # vector argument, scalar given (the HDC form); also 0-d given
    j0 = 0
    args0 = np.array(sorted(set(arg.tolist())))
    exp0 = np.asarray(getattr(tmpl(j0), method)(args0), dtype=float)
    slack0 = sensitivity(family, names, method, {k: theta[k][j0] for k in names}, args0)
    for label, gv in (("scalar_given", float(g[j0])), ("zero_d_given", np.array(float(g[j0])))):
        okh, got0 = ctx.call(f"{label}:{family}:{method}", getattr(cond, method), args0, given=gv)
        if okh and not eq(got0, exp0, 1e-9, atol, slack0):
            ctx.violation(f"{label}:{family}:{method}", f"given={g[j0]!r} arg={args0.tolist()} got={np.asarray(got0).tolist()} expected={exp0.tolist()}")

    # integer-typed conditioning values (rounded data, `model.pdf(int array)`): same numbers as the float form
    gi = np.maximum(np.round(g), 1.0)
    forms = [("int_array", gi.astype(int)), ("int_scalar", int(gi[0])), ("np_int64", np.int64(gi[0]))]
    for label, gv in forms:
        a = np.array(arg) if label == "int_array" else float(arg[0])
        gf = gi.copy() if label == "int_array" else float(gi[0])
        okf, vf = ctx.call(f"float_given:{family}:{method}", getattr(cond, method), a, given=gf)
        okg, vg = ctx.call(f"{label}:{family}:{method}", getattr(cond, method), a, given=gv)
        # (1e-9 as for the comparisons with the reference: the int and float routes to the dependence value may differ in
        # the last ulp, and von Mises quantiles come from scipy's numerical inversion, good to ~1e-10)
        if okf and okg and not eq(vg, vf, 1e-9, atol):
            ctx.violation(f"int_given:{label}:{family}:{method}", f"given={np.asarray(gv).tolist()} ({label}) -> {np.asarray(vg).tolist()} but the same values as float -> {np.asarray(vf).tolist()}")
            break

    # sampling: scalar given and vector given, equal (1e-11: the dependence value itself may differ in the last ulp) to the template under the same seed
    seed, n = case["seed"], case["n"]
    oks1, s1 = ctx.call(f"sample_scalar:{family}", cond.draw_sample, n, float(g[0]), random_state=seed)
    if oks1:
        e1 = tmpl(0).draw_sample(n, random_state=seed)
        if np.shape(s1) != (n,) or not eq(s1, e1, 1e-11):
            ctx.violation(f"sample_scalar:{family}", f"n={n} g={g[0]!r} seed={seed}: shape {np.shape(s1)} first {np.ravel(s1)[:3].tolist()} expected first {np.ravel(e1)[:3].tolist()}")
    oks2, s2 = ctx.call(f"sample_vector:{family}", cond.draw_sample, 1, np.array(g), random_state=seed)
    if oks2:
        kw = {k: theta[k] for k in names}
        e2 = build.dist(family).draw_sample(1, **kw, random_state=seed)
        if np.shape(s2) != (1, len(g)) or not eq(s2, e2, 1e-11):
            ctx.violation(f"sample_vector:{family}", f"given={g.tolist()} seed={seed}: shape {np.shape(s2)} got {np.ravel(s2)[:3].tolist()} expected {np.ravel(e2)[:3].tolist()}")
    # integer-typed vector given for sampling (np.arange grids): the same draws as with the float form
    gi_s = np.maximum(np.round(g), 1.0)
    okf, sf = ctx.call(f"sample_vector_float:{family}", cond.draw_sample, 1, gi_s.copy(), random_state=seed)
    okg, sg = ctx.call(f"sample_vector_int:{family}", cond.draw_sample, 1, gi_s.astype(int), random_state=seed)
    if okf and okg and (np.shape(sf) != np.shape(sg) or not eq(sg, sf, 1e-11)):
        ctx.violation(f"int_given:sample_vector:{family}", f"given={gi_s.astype(int).tolist()} seed={seed}: {np.ravel(sg)[:3].tolist()} but the same values as float -> {np.ravel(sf)[:3].tolist()}")
    # the template object itself must be untouched
    if desc["distribution"].parameters != build.dist(family, None, lvl.get("fixed")).parameters:
        ctx.violation(f"template_mutated:{family}", f"{desc['distribution'].parameters}")


@st.composite
def strat_case(draw, tier):
    family = draw(st.sampled_from(TEMPLATES))
    x1 = draw(st.floats(1.0, 30.0))
    lvl = draw(models.conditional_level(family, 0, 0.0, x1, allow_chain=True, nontrivial=draw(st.integers(0, 9)) > 0))
    gs = draw(st.lists(st.floats(0.0, 1.0).map(lambda u: float(round(u * x1, 6))), min_size=2, max_size=6, unique=True))
    qs = draw(st.lists(st.one_of(st.floats(0.01, 0.99), st.sampled_from([1e-6, 1e-3, 1 - 1e-3, 1 - 1e-6])), min_size=1, max_size=6))
    if family == "VonMises":
        # mean directions beyond one period (a dependence function extrapolates freely): the conditional law is the
        # template at that very value, not at the value wrapped into [-pi, pi)
        shift = draw(st.sampled_from([0.0, 0.0, 2 * math.pi + 0.3, -5.0, 9.0]))
        if shift:
            if "mu" in lvl["dependent"] and lvl["dependent"]["mu"]["shape"] in ADDITIVE_OFFSET and not lvl["dependent"]["mu"].get("use_defaults"):
                d = dict(lvl["dependent"]["mu"])
                d["coef"] = [float(d["coef"][0]) + shift] + list(d["coef"][1:])
                lvl["dependent"]["mu"] = d
            elif "mu" in lvl["fixed"]:
                lvl["fixed"]["mu"] = float(lvl["fixed"]["mu"]) + shift
    return dict(
        level=lvl,
        gs=gs,
        qs=qs,
        method=draw(st.sampled_from(["pdf", "cdf", "icdf"])),
        seed=draw(st.integers(0, 2**31 - 1)),
        n=draw(st.integers(1, 20)),
    )


# ------------------------------------------------------------------------ part history
def check_history(case, ctx):
    """evaluate - change the dependence functions - evaluate again at the same conditioning values:
    the conditional distribution must follow the *current* dependence values (no stale state)"""
    from virocon.distributions import ConditionalDistribution

    lvl, lvl2 = case["level"], case["level2"]
    family = lvl["family"]
    names = F.param_names(family)
    ctx.cls(f"history:{family}", f"change={case['change']}")
    spec = [dict(family="Weibull", params=dict(alpha=1, beta=1, gamma=0)), lvl]
    desc = build.description(spec)[1]
    cond = ConditionalDistribution(desc["distribution"], desc["parameters"])
    gs = [float(g) for g in case["gs"]]
    q = float(case["q"])

    def reference(level, g, method):
        th = refmodel.level_params(level, np.asarray(g, dtype=float))
        t = build.dist(family, {k: float(np.asarray(th[k])) for k in names})
        x = float(np.asarray(t.icdf(q))) if family != "VonMises" else float(np.asarray(th["mu"])) - 1.0
        arg = q if method == "icdf" else x
        return arg, float(np.asarray(getattr(t, method)(arg)))

    method = case["method"]
    # 1. evaluate at every g (scalar given), twice
    for g in gs + gs[:1]:
        arg, exp = reference(lvl, g, method)
        ok, got = ctx.call(f"history:first:{family}:{method}", getattr(cond, method), arg, given=g)
        if ok and not eq(got, exp, 1e-9):
            ctx.violation(f"history:first_eval:{family}:{method}", f"g={g!r}: {float(np.asarray(got))!r} vs {exp!r}")
            return
    # 2. change the dependence functions (same shapes, new coefficients)
    for pname, dspec in lvl2["dependent"].items():
        df = cond.conditional_parameters[pname]
        keys = list(df.parameters.keys())
        if case["change"] == "set_parameters":
            df.parameters = dict(zip(keys, [float(c) for c in dspec["coef"][: len(keys)]]))
        else:
            for k_, c in zip(keys, dspec["coef"]):
                df.parameters[k_] = float(c)
    ctx.nontrivial()
    # 3. evaluate again at the same g, scalar first (the order in which a stale value would be served)
    for g in gs[::-1] + gs:
        arg, exp = reference(lvl2, g, method)
        ok, got = ctx.call(f"history:second:{family}:{method}", getattr(cond, method), arg, given=g)
        if ok and not eq(got, exp, 1e-9):
            arg0, old = reference(lvl, g, method)
            ctx.violation(
                f"history:stale_after_change:{family}:{method}",
                f"g={g!r}: after the dependence functions were changed {method}({arg!r}, given=g) = {float(np.asarray(got))!r}; template at the current dependence values gives {exp!r} (value before the change: {old!r})",
            )
            return
        okv, gotv = ctx.call(f"history:second_vector:{family}:{method}", getattr(cond, method), np.array([arg, arg]), given=np.array([g, g]))
        if okv and not eq(gotv, [exp, exp], 1e-9):
            ctx.violation(f"history:stale_after_change_vector:{family}:{method}", f"g={g!r}: {np.asarray(gotv).tolist()} vs {exp!r}")
            return
    pv = cond._get_param_values(gs[0])
    th = refmodel.level_params(lvl2, np.asarray(gs[0]))
    for k in names:
        if not eq(pv[k], float(np.asarray(th[k])), 1e-12):
            ctx.violation(f"history:param_values_stale:{family}:{k}", f"g={gs[0]!r}: {pv[k]!r} vs {float(np.asarray(th[k]))!r}")
            return


@st.composite
def strat_history(draw, tier):
    family = draw(st.sampled_from(TEMPLATES))
    x1 = draw(st.floats(1.0, 30.0))
    lvl = draw(models.conditional_level(family, 0, 0.0, x1, allow_chain=False, nontrivial=True))
    # second set of coefficients: same shapes (same number of coefficients), different values
    lvl2 = dict(lvl)
    dep2 = {}
    for pname, d in lvl["dependent"].items():
        for _ in range(6):
            cand = draw(models.dep_spec(family, pname, 0.0, x1, nontrivial=True))
            if cand["shape"] == d["shape"]:
                break
        else:
            cand = dict(shape=d["shape"], coef=[c * 1.07 + 0.01 for c in d["coef"]])
        dep2[pname] = dict(shape=d["shape"], coef=cand["coef"])
    lvl2["dependent"] = dep2
    return dict(
        level=lvl, level2=lvl2, gs=draw(st.lists(st.floats(0.05, 1.0).map(lambda u: float(round(u * x1, 6))), min_size=1, max_size=3, unique=True)),
        q=draw(st.floats(0.05, 0.95)), method=draw(st.sampled_from(["pdf", "cdf", "icdf"])), change=draw(st.sampled_from(["set_parameters", "update_in_place"])),
    )


PARTS = [
    Part("conditional", check_conditional, strat_case, quick=6000, thorough=200000, min_nontrivial_frac=0.3),
    Part("history", check_history, lambda tier: strat_history(tier), quick=1500, thorough=30000, min_nontrivial_frac=0.25),
]
