"""C09 - joint fitting is order-invariant and fits each interval to exactly its own data."""

import copy
import math

import numpy as np
from hypothesis import strategies as st

from vp.runner import Part
from vp.gen import depshapes, families as fam
from vp.oracles import refmodel
from vp import build

ID = "C09"
LEVEL = "exploration"
RULE = (
    "Hypothesis draws a generating ('truth') hierarchical model (2-D pair, 3-D chain and star), a data matrix of 300-20000 rows sampled from it "
    "by the harness' own inverse Rosenblatt transform (then sorted / shuffled / rounded to create ties), a to-be-fitted model of the same "
    "structure with a slicer per conditioning dimension (width / number / points per interval, generated options) and fit descriptions that "
    "differ between dimensions (MLE, EW lsq/wlsq). Oracles: fit(data) vs fit(row-permuted data) on fresh identical models, also after a preceding "
    "fit (re-fit history); data_intervals are exactly the rows the slicer selects and lie inside the reported boundaries; every per-interval "
    "estimate equals a stand-alone fit of a copy of the template with that dimension's method/weights; dependence parameters equal a fresh "
    "dependence function fitted to (conditioning_values, estimates). Part refit_newdata: a model with the OMAE2020 V-Hs structure (alpha "
    "dependence function taking the beta dependence function as parameter, either declaration order) is fitted to one generated data set and "
    "re-fitted to another: per-interval estimates must equal those of a model fitted once to the second data set and both dependence functions "
    "must fit the *current* (reference, estimate) pairs about as well as that model's. Non-trivial: >= 3 intervals, data not sorted by the conditioning column."
)
ASSUMPTIONS = [
    "optimiser noise: marginal / per-interval MLE of permuted data compared at rtol 1e-4 (closed-form families 1e-9), dependence parameters at rtol 1e-4 with objective-equality fallback",
    "a RuntimeError from slicing (too few intervals) or from a failed dependence fit is the documented refusal; it must occur for both row orders alike",
]

# to-be-fitted conditional templates: family, fixed, {param: (shape, bounds)}
COND_TEMPLATES = {
    "LogNormal": dict(fixed={}, dep={"mu": ("power3", [(0, None), (0, None), (None, None)]), "sigma": ("exp3", [(0, None), (0, None), (None, None)])}),
    "Weibull": dict(fixed={"gamma": 0.0}, dep={"alpha": ("power3", [(0, None), (0, None), (None, None)]), "beta": ("linear2", [(0, None), (None, None)])}),
    "Normal": dict(fixed={}, dep={"mu": ("linear2", None), "sigma": ("asymdecrease3", [(0, None), (0, None), (0, None)])}),
    "ExponentiatedWeibull": dict(fixed={"delta": 2.0}, dep={"alpha": ("power3", [(0, None), (0, None), (None, None)]), "beta": ("linear2", [(0, None), (None, None)])}),
}
TRUTH_COND = {
    "LogNormal": {"mu": dict(shape="power3", coef=[0.3, 0.9, 0.35]), "sigma": dict(shape="exp3", coef=[0.08, 0.25, -0.3])},
    "Weibull": {"alpha": dict(shape="power3", coef=[1.0, 1.2, 0.8]), "beta": dict(shape="linear2", coef=[1.6, 0.15])},
    "Normal": {"mu": dict(shape="linear2", coef=[2.0, 1.5]), "sigma": dict(shape="asymdecrease3", coef=[0.4, 1.0, 0.5])},
    "ExponentiatedWeibull": {"alpha": dict(shape="power3", coef=[0.8, 0.9, 0.9]), "beta": dict(shape="linear2", coef=[1.4, 0.1])},
}


def make_data(case):
    spec = case["truth"]
    rng = np.random.default_rng(case["seed"])
    U = rng.uniform(1e-9, 1 - 1e-9, size=(case["n"], len(spec)))
    X = refmodel.inverse_rosenblatt(spec, U)
    if case["round"] is not None:
        X = np.round(X, case["round"])
        X[:, 0] = np.maximum(X[:, 0], 10.0 ** (-case["round"]))  # keep strictly positive for positive families
        for k in range(1, X.shape[1]):
            if spec[k]["family"] != "Normal":
                X[:, k] = np.maximum(X[:, k], 10.0 ** (-case["round"]))
    if case["order"] == "sorted0":
        X = X[np.argsort(X[:, 0], kind="stable")]
    elif case["order"] == "sorted_last":
        X = X[np.argsort(X[:, -1], kind="stable")]
    return X


def build_fit_model(case):
    from virocon import GlobalHierarchicalModel, DependenceFunction

    descs = []
    for lvl in case["fitmodel"]:
        d = {}
        if lvl.get("conditional_on") is None:
            d["distribution"] = build.dist(lvl["family"], None, lvl.get("fixed"))
        else:
            d["distribution"] = build.dist(lvl["family"], None, lvl.get("fixed"))
            d["conditional_on"] = lvl["conditional_on"]
            pars = {}
            for pname, (shape, bounds) in lvl["dep"].items():
                kw = {}
                if bounds is not None:
                    kw["bounds"] = [tuple(b) for b in bounds]
                pars[pname] = DependenceFunction(depshapes.python_callable(shape), **kw)
            d["parameters"] = pars
        if lvl.get("intervals") is not None:
            d["intervals"] = build.slicer(lvl["intervals"])
        descs.append(d)
    return GlobalHierarchicalModel(descs)


def fit_desc(case):
    fd = case["fit_descriptions"]
    if fd is None:
        return None
    return [None if f is None else dict(f) for f in fd]


def run_fit(case, X, twice=False):
    m = build_fit_model(case)
    try:
        m.fit(X, fit_desc(case))
        if twice:
            m.fit(X, fit_desc(case))
    except RuntimeError as e:
        return m, f"RuntimeError: {str(e)[:80]}"
    return m, None


def params_of(dist):
    return {k: float(v) for k, v in dist.parameters.items()}


def close_params(a, b, rtol):
    for k in a:
        if not (abs(a[k] - b[k]) <= rtol * max(abs(a[k]), abs(b[k]), 1e-3)):
            return False, k
    return True, None


CLOSED_FORM = {"Normal", "LogNormal"}


def check_fit(case, ctx):
    X = make_data(case)
    n_dim = X.shape[1]
    if not np.all(np.isfinite(X)):
        return
    fm = case["fitmodel"]
    slicer_kinds = [l["intervals"]["kind"] for l in fm if l.get("intervals")]
    ctx.cls(f"n_dim={n_dim}", f"structure={case['structure']}", f"order={case['order']}", f"round={case['round']}", f"history={case['history']}")
    for k in slicer_kinds:
        ctx.cls(f"slicer={k}")
    fds = case["fit_descriptions"]
    distinct_fd = fds is not None and len({str(f) for f in fds}) > 1
    ctx.cls(f"fit_desc={'differs' if distinct_fd else 'uniform'}")
    twice = case["history"] == "refit"
    perm = np.random.default_rng(case["seed"] + 7).permutation(len(X))
    A, errA = run_fit(case, X, twice)
    B, errB = run_fit(case, X[perm], twice)
    if (errA is None) != (errB is None):
        ctx.violation("order_dependent_outcome", f"fit(data) -> {errA or 'ok'}; fit(permuted data) -> {errB or 'ok'}")
        return
    if errA is not None:
        ctx.rejected_by_contract()
        return
    tag = f"n={len(X)} structure={case['structure']} slicers={slicer_kinds} order={case['order']} round={case['round']} history={case['history']} fit_desc={fds}"
    n_int_min = 99
    for i in range(n_dim):
        lvl = fm[i]
        j = lvl.get("conditional_on")
        fd_i = (fds[i] if fds is not None else None) or {"method": "mle", "weights": None}
        fd_i = dict(method=fd_i["method"], weights=fd_i.get("weights"))
        dA, dB = A.distributions[i], B.distributions[i]
        if j is None:
            rt = 1e-9 if lvl["family"] in CLOSED_FORM or fd_i["method"] != "mle" else 1e-4
            ok, k = close_params(params_of(dA), params_of(dB), rt)
            if not ok:
                ctx.violation(f"order_dependent:marginal:{lvl['family']}:{fd_i['method']}", f"{tag}: dim {i} {params_of(dA)} vs permuted {params_of(dB)}")
            # marginal = stand-alone fit with this dimension's method/weights
            ref = build.dist(lvl["family"], None, lvl.get("fixed"))
            ref.fit(X[:, i], fd_i["method"], fd_i["weights"])
            if twice:
                ref.fit(X[:, i], fd_i["method"], fd_i["weights"])
            ok, k = close_params(params_of(dA), params_of(ref), 1e-9)
            if not ok:
                ctx.violation(f"marginal_not_standalone:{lvl['family']}", f"{tag}: dim {i} fitted {params_of(dA)} but stand-alone fit with {fd_i} gives {params_of(ref)}")
            continue
        # ---------------- conditional dimension
        sl = build.slicer(fm[j]["intervals"]) if fm[j].get("intervals") else None
        if sl is None:
            from virocon import NumberOfIntervalsSlicer

            sl = NumberOfIntervalsSlicer(n_intervals=10)
        masks, refs, bounds = sl.slice_(X[:, j])
        n_int = len(masks)
        n_int_min = min(n_int_min, n_int)
        if len(dA.data_intervals) != n_int:
            ctx.violation("interval_count", f"{tag}: dim {i}: {len(dA.data_intervals)} data intervals, slicer of dim {j} yields {n_int}")
            return
        for t in range(n_int):
            exp = np.sort(X[np.asarray(masks[t]), i])
            got = np.sort(np.asarray(dA.data_intervals[t], dtype=float))
            if not np.array_equal(exp, got):
                ctx.violation("interval_content", f"{tag}: dim {i} interval {t}: data_intervals holds {len(got)} values (first {got[:4].tolist()}), the slicer of dim {j} selects {len(exp)} rows (first {exp[:4].tolist()})")
                return
            cv = X[np.asarray(masks[t]), j]
            lo, hi = dA.conditioning_interval_boundaries[t]
            tol = 1e-9 * max(abs(lo), abs(hi), 1.0)
            if len(cv) and (cv.min() < lo - tol or cv.max() > hi + tol):
                ctx.violation("interval_boundaries", f"{tag}: dim {i} interval {t}: conditioning values in [{cv.min()!r},{cv.max()!r}] but reported boundaries ({lo!r},{hi!r})")
                return
        # observations A vs B per interval (as multisets)
        compare_ab = True
        for t in range(n_int):
            sa = np.sort(np.asarray(dA.data_intervals[t], dtype=float))
            sb = np.sort(np.asarray(dB.data_intervals[t], dtype=float)) if t < len(dB.data_intervals) else np.array([])
            if not np.array_equal(sa, sb):
                kindj = fm[j]["intervals"]["kind"] if fm[j].get("intervals") else "number"
                tied = False
                if kindj == "points":
                    srt = np.sort(X[:, j])
                    p_ = fm[j]["intervals"]["n_points"]
                    rem = len(srt) % p_
                    cuts = list(range(rem if fm[j]["intervals"].get("last_full", True) else p_, len(srt), p_))
                    tied = any(0 < c < len(srt) and srt[c - 1] == srt[c] for c in cuts)
                if tied:
                    ctx.violation("order_dependent:points_ties", f"{tag}: dim {i} interval {t}: PointsPerIntervalSlicer cuts through tied conditioning values; which of the tied rows falls on which side depends on the row order ({len(sa)} vs {len(sb)} observations, first difference {sa[:3].tolist()} / {sb[:3].tolist()})")
                else:
                    ctx.violation("order_dependent:data_intervals", f"{tag}: dim {i} interval {t}: different observations after permuting the rows ({len(sa)} vs {len(sb)})")
                compare_ab = False
                break
        cvA = np.asarray(dA.conditioning_values, dtype=float)
        if not np.allclose(cvA, np.asarray(refs, dtype=float), rtol=1e-12, atol=0):
            ctx.violation("conditioning_values", f"{tag}: dim {i}: {cvA.tolist()} vs slicer references {np.asarray(refs).tolist()}")
        # per-interval estimate = stand-alone fit of a copy of the template, with THIS dimension's options
        fam_i = lvl["family"]
        rt_perm = 1e-9 if fam_i in CLOSED_FORM or fd_i["method"] != "mle" else 1e-4
        for t in range(n_int):
            ref = build.dist(fam_i, None, lvl.get("fixed"))
            try:
                ref.fit(np.asarray(dA.data_intervals[t]), fd_i["method"], fd_i["weights"])
            except Exception as e:  # noqa: BLE001
                ctx.note(f"stand-alone interval fit failed: {type(e).__name__}")
                break
            pa = {k: float(v) for k, v in dA.parameters_per_interval[t].items()}
            ok, k = close_params(pa, params_of(ref), 1e-9)
            if not ok:
                ctx.violation(f"interval_not_standalone:{fam_i}", f"{tag}: dim {i} interval {t}: estimate {pa} but stand-alone fit with {fd_i} gives {params_of(ref)}")
                return
            if compare_ab:
                pb = {k: float(v) for k, v in B.distributions[i].parameters_per_interval[t].items()}
                ok, k = close_params(pa, pb, rt_perm)
                if not ok:
                    ctx.violation(f"order_dependent:interval:{fam_i}", f"{tag}: dim {i} interval {t}: {pa} vs permuted {pb}")
                    return
        # dependence parameters = fresh function fitted to (conditioning values, estimates)
        from virocon import DependenceFunction

        for pname, (shape, bnds) in lvl["dep"].items():
            y = [p[pname] for p in dA.parameters_per_interval]
            kw = {"bounds": [tuple(b) for b in bnds]} if bnds is not None else {}
            fresh = DependenceFunction(depshapes.python_callable(shape), **kw)
            try:
                fresh.fit(dA.conditioning_values, y)
                if twice:
                    # the model's function was fitted in round one, then re-fitted from there
                    pass
            except RuntimeError:
                continue
            got = np.array(list(dA.conditional_parameters[pname].parameters.values()), dtype=float)
            gotB = np.array(list(dB.conditional_parameters[pname].parameters.values()), dtype=float)
            exp = np.array(list(fresh.parameters.values()), dtype=float)
            fn = depshapes.SHAPES[shape][0]
            xx = np.asarray(dA.conditioning_values, dtype=float)
            yy = np.asarray(y, dtype=float)

            def Jf(p):
                with np.errstate(all="ignore"):
                    return float(np.sum((fn(xx, *p) - yy) ** 2))

            def same(p, q):
                if np.allclose(p, q, rtol=1e-4, atol=1e-7):
                    return True
                a, b = Jf(p), Jf(q)
                return math.isfinite(a) and abs(a - b) <= 1e-4 * max(a, b) + 1e-8 * float(np.sum(yy * yy))

            if not twice and not same(got, exp):
                ctx.violation(f"dependence_fit:{shape}", f"{tag}: dim {i} parameter {pname}: model has {got.tolist()} (J={Jf(got)!r}); a fresh {shape} fitted to the (reference, estimate) pairs gives {exp.tolist()} (J={Jf(exp)!r})")
            if compare_ab and not same(got, gotB):
                ctx.violation(f"order_dependent:dependence:{shape}", f"{tag}: dim {i} parameter {pname}: {got.tolist()} vs permuted {gotB.tolist()}")
    ctx.nontrivial(n_int_min >= 3 and case["order"] != "sorted0")


def slicer_spec(draw, kind, X_hi, n):
    # value_range narrower than the data (observations outside it belong to no interval)
    vr = draw(st.sampled_from([None, None, None, [0.0, round(0.7 * X_hi, 3)], [round(0.08 * X_hi, 3), round(0.8 * X_hi, 3)]]))
    if kind == "width":
        k = draw(st.integers(4, 9))
        w = round(X_hi / k, 2) or 0.1
        return dict(kind="width", width=float(w), min_n_points=draw(st.sampled_from([10, 20])), min_n_intervals=3,
                    right_open=draw(st.booleans()), reference=draw(st.sampled_from(["center", "left", "right", "np.median"])), value_range=vr)
    if kind == "number":
        return dict(kind="number", n_intervals=draw(st.integers(3, 8)), min_n_points=draw(st.sampled_from([10, 20])), min_n_intervals=3,
                    include_max=draw(st.booleans()), reference=draw(st.sampled_from(["center", "left", "right", "np.median"])), value_range=vr)
    per = max(25, n // draw(st.integers(3, 9)))
    return dict(kind="points", n_points=int(per), last_full=draw(st.booleans()), min_n_points=20, min_n_intervals=3,
                reference=draw(st.sampled_from(["np.median", "np.mean"])))


@st.composite
def strat_fit(draw, tier):
    big = 20000 if tier == "thorough" else 4000
    structure = draw(st.sampled_from(["pair", "pair", "chain", "star"]))
    n = draw(st.one_of(st.integers(300, 1500), st.integers(300, big)))
    fam0 = draw(st.sampled_from(["Weibull", "LogNormal", "ExponentiatedWeibull"]))
    p0 = {"Weibull": dict(alpha=2.5, beta=1.6, gamma=0.3), "LogNormal": dict(mu=0.9, sigma=0.45), "ExponentiatedWeibull": dict(alpha=1.8, beta=1.3, delta=2.0)}[fam0]
    p0 = {k: float(v * draw(st.floats(0.8, 1.25))) for k, v in p0.items()}
    truth = [dict(family=fam0, params=p0)]
    fit0 = dict(family=fam0, fixed={})
    fitmodel = [fit0]
    conds = [0] if structure == "pair" else ([0, 1] if structure == "chain" else [0, 0])
    fams = []
    for lvl, c in enumerate(conds, start=1):
        f = draw(st.sampled_from(["LogNormal", "Weibull", "Normal", "ExponentiatedWeibull"] if not (structure == "chain" and lvl == 1) else ["LogNormal", "Weibull", "ExponentiatedWeibull"]))
        fams.append(f)
        tc = copy.deepcopy(TRUTH_COND[f])
        truth.append(dict(family=f, conditional_on=c, fixed=dict(COND_TEMPLATES[f]["fixed"]), dependent=tc))
        fitmodel.append(dict(family=f, conditional_on=c, fixed=dict(COND_TEMPLATES[f]["fixed"]),
                             dep={k: [v[0], [list(b) for b in v[1]] if v[1] is not None else None] for k, v in COND_TEMPLATES[f]["dep"].items()}))
    # slicers on the conditioning dimensions
    rng_hi = refmodel.approx_range(truth, 1e-3, 0.995)
    used = sorted(set(conds))
    for j in used:
        kind = draw(st.sampled_from(["width", "number", "points", "points"]))
        fitmodel[j]["intervals"] = slicer_spec(draw, kind, rng_hi[j][1], n)
    # fit descriptions (per dimension, may differ)
    fds = []
    for i, lvl in enumerate(fitmodel):
        if lvl["family"] == "ExponentiatedWeibull":
            if lvl.get("conditional_on") is None:
                fds.append(draw(st.sampled_from([None, {"method": "mle"}, {"method": "wlsq", "weights": "quadratic"}, {"method": "lsq", "weights": None}])))
            else:
                fds.append(draw(st.sampled_from([None, {"method": "mle"}, {"method": "wlsq", "weights": "linear"}])))
        else:
            fds.append(draw(st.sampled_from([None, {"method": "mle"}])))
    if all(f is None for f in fds) and draw(st.booleans()):
        fds = None
    return dict(
        truth=truth, fitmodel=fitmodel, fit_descriptions=fds, structure=structure, n=n, seed=draw(st.integers(0, 2**31 - 100)),
        round=draw(st.sampled_from([None, None, 2, 1])), order=draw(st.sampled_from(["asdrawn", "asdrawn", "sorted0", "sorted_last"])),
        history=draw(st.sampled_from(["fit", "fit", "refit"])),
    )


# ------------------------------------------------------------------- part refit_newdata
def _chain_model(case):
    """V ~ Weibull, Hs | V ~ exponentiated Weibull (f_delta) with alpha = alpha3(d_of_x = beta function) and
    beta = logistics4 - the structure of get_OMAE2020_V_Hs - or two independent dependence functions"""
    from virocon import GlobalHierarchicalModel, DependenceFunction, WidthOfIntervalSlicer

    beta_dep = DependenceFunction(depshapes.python_callable("logistics4"), [(0, None), (0, None), (None, 0), (0, None)])
    beta_dep.parameters = dict(a=1.0, b=1.0, c=-1.0, d=6.0)
    if case["chained"]:
        alpha_dep = DependenceFunction(depshapes.python_callable("alpha3"), [(0, None), (0, None), (None, None)], d_of_x=beta_dep)
    else:
        alpha_dep = DependenceFunction(depshapes.python_callable("power3"), [(0, None), (0, None), (None, None)])
    pars = {"alpha": alpha_dep, "beta": beta_dep} if case["alpha_first"] else {"beta": beta_dep, "alpha": alpha_dep}
    descs = [
        {"distribution": build.dist("Weibull"), "intervals": WidthOfIntervalSlicer(case["width"], min_n_points=30)},
        {"distribution": build.dist("ExponentiatedWeibull", None, dict(delta=5.0)), "conditional_on": 0, "parameters": pars},
    ]
    return GlobalHierarchicalModel(descs)


def _chain_data(n, seed, k):
    rng = np.random.default_rng(seed)
    v = 9.0 * rng.weibull(2.1, n) + 0.2
    beta = 0.8 + k["b1"] / (1 + np.exp(-0.5 * (v - k["d"])))
    alpha = (k["a0"] + k["a1"] * v ** k["c"]) / 2.0445 ** (1 / beta)
    u = rng.uniform(1e-9, 1 - 1e-9, n)
    hs = alpha * (-np.log1p(-u ** (1 / 5.0))) ** (1 / beta)
    return np.c_[v, hs]


def check_refit_newdata(case, ctx):
    ctx.cls(f"chained={case['chained']}", f"alpha_first={case['alpha_first']}")
    ctx.nontrivial(case["chained"] and case["alpha_first"])
    d1 = _chain_data(case["n1"], case["seed1"], case["k1"])
    d2 = _chain_data(case["n2"], case["seed2"], case["k2"])
    if case["seed1"] % 2 == 0:
        # the first record is a calmer one (its largest conditioning value is several interval widths below the second
        # record's): nothing resolved from the first data (ranges, edges) may survive into the re-fit
        d1 = d1[d1[:, 0] <= np.quantile(d1[:, 0], 0.7)]
        ctx.cls("first_record_calmer")
    fd = [None, {"method": "wlsq", "weights": "quadratic"}] if case["wlsq"] else None

    def fit_desc_():
        return None if fd is None else [None if f is None else dict(f) for f in fd]

    M = _chain_model(case)
    Fm = _chain_model(case)
    import warnings as _w

    try:
        with _w.catch_warnings():
            _w.simplefilter("ignore")
            M.fit(d1, fit_desc_())
            P1 = {p_: dict(M.distributions[1].conditional_parameters[p_].parameters) for p_ in ("alpha", "beta")}
            M.fit(d2, fit_desc_())
            Fm.fit(d2, fit_desc_())
    except RuntimeError:
        ctx.rejected_by_contract()
        return
    dm, df_ = M.distributions[1], Fm.distributions[1]
    cv = np.asarray(dm.conditioning_values, dtype=float)
    cvf = np.asarray(df_.conditioning_values, dtype=float)
    if cv.shape != cvf.shape:
        ctx.violation("refit:interval_count", f"re-fitted model has {len(cv)} intervals ({cv.tolist()}), a first fit on the same data {len(cvf)} ({cvf.tolist()})")
        return
    if not np.allclose(cv, cvf, rtol=1e-12):
        ctx.violation("refit:conditioning_values", f"{cv.tolist()} vs fresh {np.asarray(df_.conditioning_values).tolist()}")
        return
    for t, (pa, pb) in enumerate(zip(dm.parameters_per_interval, df_.parameters_per_interval)):
        for k_ in pa:
            if not abs(float(pa[k_]) - float(pb[k_])) <= 1e-9 * max(abs(float(pb[k_])), 1e-3):
                ctx.violation("refit:interval_estimate", f"interval {t} {k_}: re-fitted {pa[k_]!r} vs first fit on the same data {pb[k_]!r}")
                return
    tag = f"chained={case['chained']} alpha_first={case['alpha_first']} n=({case['n1']},{case['n2']}) wlsq={case['wlsq']}"
    # reference: fresh dependence functions that start where the model's functions stood after the first fit
    # (re-fits are warm starts), fitted in dependency order to the *current* (reference, estimate) pairs
    from virocon import DependenceFunction

    ref_beta = DependenceFunction(depshapes.python_callable("logistics4"), [(0, None), (0, None), (None, 0), (0, None)])
    ref_beta.parameters = dict(P1["beta"])
    if case["chained"]:
        ref_alpha = DependenceFunction(depshapes.python_callable("alpha3"), [(0, None), (0, None), (None, None)], d_of_x=ref_beta)
    else:
        ref_alpha = DependenceFunction(depshapes.python_callable("power3"), [(0, None), (0, None), (None, None)])
    ref_alpha.parameters = dict(P1["alpha"])
    est = {p_: np.array([q[p_] for q in dm.parameters_per_interval], dtype=float) for p_ in ("alpha", "beta")}
    try:
        with _w.catch_warnings():
            _w.simplefilter("ignore")
            ref_beta.fit(cv, est["beta"])
            ref_alpha.fit(cv, est["alpha"])
    except RuntimeError:
        ctx.rejected_by_contract()
        return
    for pname, ref in (("beta", ref_beta), ("alpha", ref_alpha)):
        got = np.array(list(dm.conditional_parameters[pname].parameters.values()), dtype=float)
        exp = np.array(list(ref.parameters.values()), dtype=float)
        if np.allclose(got, exp, rtol=1e-4, atol=1e-7):
            continue
        fM = np.asarray(dm.conditional_parameters[pname](cv), dtype=float)
        fR = np.asarray(ref(cv), dtype=float)
        JM, JR = float(np.sum((fM - est[pname]) ** 2)), float(np.sum((fR - est[pname]) ** 2))
        if abs(JM - JR) <= 1e-4 * max(JM, JR) + 1e-8 * float(np.sum(est[pname] ** 2)):
            continue
        kind = "chained_dependent_first" if (case["chained"] and case["alpha_first"] and pname == "alpha") else "plain"
        ctx.violation(
            f"refit:dependence_not_fitted_to_current_pairs:{pname}:{kind}",
            f"{tag}: after the re-fit the {pname} dependence function has {got.tolist()} (J={JM!r} on the current pairs); fitting it to the current (reference, estimate) pairs from its state after the first fit gives {exp.tolist()} (J={JR!r})",
        )
        return


@st.composite
def strat_refit(draw, tier):
    def coef():
        return dict(a0=draw(st.floats(0.2, 0.6)), a1=draw(st.floats(0.05, 0.25)), c=draw(st.floats(0.9, 1.5)), b1=draw(st.floats(0.6, 1.6)), d=draw(st.floats(5.0, 11.0)))

    return dict(
        chained=draw(st.sampled_from([True, True, False])), alpha_first=draw(st.sampled_from([True, True, False])),
        n1=draw(st.integers(1500, 4000)), n2=draw(st.integers(1500, 4000)), seed1=draw(st.integers(0, 2**31 - 1)), seed2=draw(st.integers(0, 2**31 - 1)),
        k1=coef(), k2=coef(), width=draw(st.sampled_from([2.0, 2.5, 3.0])), wlsq=draw(st.booleans()),
    )


RATE_LIMITS = [
    ("order_dependent:dependence", "fit/n_dim=2", 0.03, 100),
    ("order_dependent_outcome", "fit/n_dim=2", 0.03, 100),
]

PARTS = [
    Part("refit_newdata", check_refit_newdata, lambda tier: strat_refit(tier), quick=96, thorough=2000, shrink=False, min_per_shard=2),
    Part("fit", check_fit, lambda tier: strat_fit(tier), quick=250, thorough=5000, shrink=False, min_per_shard=4, min_nontrivial_frac=0.2),
]
