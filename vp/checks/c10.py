"""C10 - interval slicing partitions the data: each observation in exactly one interval."""

import itertools
import math

import numpy as np
from hypothesis import strategies as st

from vp.runner import Part

ID = "C10"
LEVEL = "exploration"
EXHAUSTIVE = True
RULE = (
    "Part lattice (exhaustive): for each width w in {1, 0.5, 0.1, 0.3, 0.7} all data vectors of length <= 3 (quick) / <= 4 plus "
    "every length-5 vector of a 7-value sub-lattice (thorough) over the lattice {k*w/2, k=0..8} in both its float-product and "
    "decimal-rounded forms, in all orders, times the full option product of the three slicers (right_open, reference incl. callable, "
    "value_range, include_max, last_full, n_intervals/n_points, min_n_points, min_n_intervals). Part random (Hypothesis): vectors of "
    "50-20000 values rounded to 0.1/0.01 with ties in arbitrary order and generated options. Oracle: reference semantics from the "
    "docstrings, assignment-agnostic for values within 1e-9*w of an interior edge (either neighbour, but exactly one); random part also as a "
    "history: the same slicer instance slices another record first and must then give what a fresh slicer gives. "
    "Non-trivial: a value exactly on an interval edge or unsorted input; distinct by sha1 of the case."
)
ASSUMPTIONS = [
    "which neighbour receives a value that lies within 1e-9*width of an interior edge is not fixed by the property (decimal intent vs binary floats); exactly-one membership is",
    "the lower end of the value range (0, value_range[0] or min(data)) is part of a right-open covered range; the upper end only with include_max / left-open",
    "exhaustive enumeration covers the stated lattice only; longer vectors are sampled by Hypothesis",
]

REFS = {"center": "center", "left": "left", "right": "right", "np.median": np.median, "np.mean": np.mean}


def _ulp(x):
    return np.spacing(max(abs(float(x)), 1e-300))


# ---------------------------------------------------------------------------------------
# grid slicers (width / number of intervals)
# ---------------------------------------------------------------------------------------
def make_slicer(kind, opts, **override):
    from virocon import WidthOfIntervalSlicer, NumberOfIntervalsSlicer, PointsPerIntervalSlicer

    o = dict(opts)
    o.update(override)
    if "reference" in o:
        o["reference"] = REFS[o["reference"]] if isinstance(o["reference"], str) and o["reference"] in REFS else o["reference"]
    if o.get("value_range") is not None:
        o["value_range"] = tuple(o["value_range"])
    cls = {"width": WidthOfIntervalSlicer, "number": NumberOfIntervalsSlicer, "points": PointsPerIntervalSlicer}[kind]
    return cls(**o)


def run_slicer(kind, opts, data, **override):
    """returns ('ok', masks, refs, bounds) | ('RuntimeError', msg) | ('other', exc)"""
    try:
        s = make_slicer(kind, opts, **override)
        masks, refs, bounds = s.slice_(data)
        return ("ok", masks, refs, bounds)
    except RuntimeError as e:
        return ("RuntimeError", str(e))
    except Exception as e:  # noqa: BLE001
        return ("other", e)


def verify_grid(kind, opts, data, ctx, tag):
    data = np.asarray(data, dtype=float)
    n = len(data)
    m = opts.get("min_n_points", 50)
    mi = opts.get("min_n_intervals", 3)
    if kind == "number":
        mi = min(mi, opts["n_intervals"])
    sig = f"{kind}"
    r0 = run_slicer(kind, opts, data, min_n_points=0, min_n_intervals=0)
    if r0[0] != "ok":
        ctx.violation(f"{sig}:raises_without_limits:{type(r0[1]).__name__ if r0[0] == 'other' else r0[0]}", f"{tag}: {r0[1]}")
        return
    _, masks0, refs0, bounds0 = r0
    k = len(masks0)
    if not (len(refs0) == k and len(bounds0) == k):
        ctx.violation(f"{sig}:lengths", f"{tag}: {k} masks, {len(refs0)} references, {len(bounds0)} boundaries")
        return
    if k == 0:
        ctx.violation(f"{sig}:no_intervals", f"{tag}")
        return
    M = np.array([np.asarray(mk) for mk in masks0])
    if M.shape != (k, n) or M.dtype != bool:
        ctx.violation(f"{sig}:mask_shape", f"{tag}: masks shape {M.shape} dtype {M.dtype}, data length {n}")
        return
    lo = np.array([float(b[0]) for b in bounds0])
    hi = np.array([float(b[1]) for b in bounds0])
    # nominal geometry
    vr = opts.get("value_range")
    if kind == "width":
        w = float(opts["width"])
        nom_lo = 0.0 if (vr is None or vr[0] is None) else float(vr[0])
        nom_top = float(np.max(data)) if (vr is None or vr[1] is None) else float(vr[1])
        right_open = opts.get("right_open", True)
        incl_top = not right_open
        incl_lo = right_open
    else:
        nom_lo = float(np.min(data)) if vr is None else float(vr[0])
        nom_top = float(np.max(data)) if vr is None else float(vr[1])
        w = (nom_top - nom_lo) / opts["n_intervals"]
        incl_top = bool(opts.get("include_max", True))
        incl_lo = True
        if k != opts["n_intervals"]:
            ctx.violation(f"{sig}:interval_count", f"{tag}: {k} intervals for n_intervals={opts['n_intervals']}")
            return
    tol = 1e-9 * max(w, 1e-300) + 4 * _ulp(max(abs(nom_lo), abs(nom_top)))
    if w > 0:
        if abs(lo[0] - nom_lo) > tol:
            ctx.violation(f"{sig}:first_boundary", f"{tag}: first lower boundary {lo[0]!r}, range starts at {nom_lo!r}")
        if np.any(np.abs((hi - lo) - w) > tol):
            ctx.violation(f"{sig}:boundary_width", f"{tag}: boundary widths {(hi - lo).tolist()} != {w!r}")
        if k > 1 and np.any(np.abs(hi[:-1] - lo[1:]) > tol):
            ctx.violation(f"{sig}:boundaries_not_contiguous", f"{tag}: {list(zip(lo.tolist(), hi.tolist()))}")
        if kind == "number" and abs(hi[-1] - nom_top) > tol:
            ctx.violation(f"{sig}:last_boundary", f"{tag}: last upper boundary {hi[-1]!r}, range ends at {nom_top!r}")
        if kind == "width":
            # the range must reach the top of the requested range (max of the data by default)
            if hi[-1] < nom_top - tol or (not incl_top and hi[-1] <= nom_top - tol):
                ctx.violation(f"{sig}:range_too_short", f"{tag}: last upper boundary {hi[-1]!r} does not cover {nom_top!r}")
    # membership
    counts = M.sum(axis=0)
    top = hi[-1]
    if np.any(counts > 1):
        i = int(np.argmax(counts > 1))
        ctx.violation(f"{sig}:in_two_intervals", f"{tag}: value {data[i]!r} is in {int(counts[i])} intervals {[list(map(float, bounds0[j])) for j in np.nonzero(M[:, i])[0]]}")
    if w > 0:
        x = data
        robust_inside = (x > nom_lo + tol) & (x < top - tol)
        at_lo = x == nom_lo
        at_top = np.abs(x - top) <= tol
        if kind == "number" or (kind == "width" and (vr is None or vr[1] is None)):
            # the maximum of the data / range end itself
            at_max = x == nom_top
        else:
            at_max = np.zeros(n, dtype=bool)
        must = robust_inside | (at_lo & incl_lo)
        if kind == "number":
            must = must | (at_max & incl_top)
        elif incl_top:
            must = must | (at_top & (x <= top))
        else:
            # right-open width slicer: the data maximum must still be covered (range extends past it)
            must = must | (at_max & (vr is None or vr[1] is None))
        must_not = (x < nom_lo - tol) | (x > top + tol)
        if kind == "number" and not incl_top:
            must_not = must_not | (x == nom_top)
        if not incl_lo:
            must_not = must_not | (x == nom_lo)
        missing = must & (counts == 0)
        if np.any(missing):
            i = int(np.argmax(missing))
            ctx.violation(f"{sig}:in_no_interval", f"{tag}: value {data[i]!r} inside the covered range [{nom_lo!r}, {top!r}] is in no interval; boundaries {list(zip(lo.tolist(), hi.tolist()))}")
        extra = must_not & (counts > 0)
        if np.any(extra):
            i = int(np.argmax(extra))
            ctx.violation(f"{sig}:outside_range_included", f"{tag}: value {data[i]!r} outside the covered range is in an interval")
        # members within their boundaries; nominal interval for values away from edges
        for j in range(k):
            xs = x[M[j]]
            if len(xs) and (xs.min() < lo[j] - tol or xs.max() > hi[j] + tol):
                ctx.violation(f"{sig}:member_outside_boundaries", f"{tag}: interval {j} boundaries ({lo[j]!r},{hi[j]!r}) members {xs.tolist()}")
                break
    # references
    ref_opt = opts.get("reference", "center")
    refs0 = np.asarray(refs0, dtype=float)
    if ref_opt == "center":
        exp = (lo + hi) / 2
    elif ref_opt == "left":
        exp = lo
    elif ref_opt == "right":
        exp = hi
    else:
        f = REFS[ref_opt]
        exp = np.array([f(data[M[j]]) if M[j].any() else np.nan for j in range(k)])
    good = (np.abs(refs0 - exp) <= tol) | (np.isnan(exp))
    if not good.all():
        j = int(np.argmin(good))
        ctx.violation(f"{sig}:reference:{ref_opt}", f"{tag}: interval {j} reference {refs0[j]!r} expected {exp[j]!r} boundaries ({lo[j]!r},{hi[j]!r})")

    # dropping rule and min_n_intervals
    keep = [j for j in range(k) if int(M[j].sum()) >= m]
    r = run_slicer(kind, opts, data)
    if len(keep) < mi:
        if r[0] != "RuntimeError":
            ctx.violation(f"{sig}:too_few_intervals_not_rejected", f"{tag}: {len(keep)} intervals remain, min_n_intervals={mi}, got {r[0]}")
    elif r[0] != "ok":
        ctx.violation(f"{sig}:unexpected_{r[0]}", f"{tag}: {len(keep)} intervals remain (min {mi}) but slice_ raised {r[1]!r}")
    else:
        _, masks, refs, bounds = r
        same = len(masks) == len(keep) and all(np.array_equal(np.asarray(masks[a]), M[j]) for a, j in enumerate(keep))
        if same:
            rr = np.asarray(refs, dtype=float)
            same = rr.shape == (len(keep),) and np.all((np.abs(rr - refs0[keep]) <= tol) | np.isnan(refs0[keep]))
            same = same and all(abs(float(bounds[a][0]) - lo[j]) <= tol and abs(float(bounds[a][1]) - hi[j]) <= tol for a, j in enumerate(keep))
        if not same:
            ctx.violation(f"{sig}:drop_rule", f"{tag}: result with min_n_points={m} is not the unfiltered result restricted to intervals with >= {m} points (kept {len(masks)} expected {len(keep)})")
    return M, lo, hi


def verify_equivariance(kind, opts, data, perm, ctx, tag):
    data = np.asarray(data, dtype=float)
    a = run_slicer(kind, opts, data)
    b = run_slicer(kind, opts, data[perm])
    if a[0] != b[0]:
        ctx.violation(f"{kind}:order_dependent_outcome", f"{tag}: {a[0]} vs {b[0]} after permutation")
        return
    if a[0] != "ok":
        return
    ma, mb = a[1], b[1]
    if len(ma) != len(mb):
        ctx.violation(f"{kind}:order_dependent_count", f"{tag}: {len(ma)} vs {len(mb)} intervals")
        return
    for j in range(len(ma)):
        va = np.sort(data[np.asarray(ma[j])])
        vb = np.sort(data[perm][np.asarray(mb[j])])
        if not np.array_equal(va, vb):
            ctx.violation(f"{kind}:order_dependent_members", f"{tag}: interval {j} holds {va.tolist()} but {vb.tolist()} after permuting the input")
            return
    ra, rb = np.asarray(a[2], dtype=float), np.asarray(b[2], dtype=float)
    if ra.shape != rb.shape or not np.all((np.abs(ra - rb) <= 1e-12 * np.maximum(1, np.abs(ra))) | (np.isnan(ra) & np.isnan(rb))):
        ctx.violation(f"{kind}:order_dependent_references", f"{tag}: {ra.tolist()} vs {rb.tolist()}")


# ---------------------------------------------------------------------------------------
# points-per-interval slicer
# ---------------------------------------------------------------------------------------
def verify_ppi(opts, data, ctx, tag):
    data = np.asarray(data, dtype=float)
    n = len(data)
    p = opts["n_points"]
    m = min(opts.get("min_n_points", 50), p)
    mi = opts.get("min_n_intervals", 3)
    last_full = opts.get("last_full", True)
    f = REFS[opts.get("reference", "np.median")]
    srt = np.sort(data)
    rem = n % p
    full = n // p
    if rem == 0:
        sizes = [p] * full
    elif last_full:
        sizes = [rem] + [p] * full
    else:
        sizes = [p] * full + [rem]
    chunks = []
    pos = 0
    for s in sizes:
        chunks.append(srt[pos : pos + s])
        pos += s
    chunks = [c for c in chunks if len(c) >= m]
    r = run_slicer("points", opts, data)
    if len(chunks) < mi:
        if r[0] != "RuntimeError":
            what = type(r[1]).__name__ if r[0] == "other" else r[0]
            ctx.violation(f"points:too_few_intervals_not_rejected:{what}", f"{tag}: {len(chunks)} intervals remain, min_n_intervals={mi}: expected RuntimeError, got {r[0]} {r[1] if r[0] != 'ok' else ''}")
        return
    if r[0] != "ok":
        ctx.violation(f"points:unexpected_{r[0]}", f"{tag}: {len(chunks)} intervals expected but slice_ raised {r[1]!r}")
        return
    _, masks, refs, bounds = r
    if not (len(masks) == len(chunks) == len(refs) == len(bounds)):
        ctx.violation("points:interval_count", f"{tag}: {len(masks)} masks / {len(refs)} refs / {len(bounds)} boundaries, expected {len(chunks)}")
        return
    M = np.array([np.asarray(mk) for mk in masks])
    if M.shape != (len(chunks), n) or M.dtype != bool:
        ctx.violation("points:mask_shape", f"{tag}: {M.shape} {M.dtype}")
        return
    counts = M.sum(axis=0)
    if np.any(counts > 1):
        ctx.violation("points:in_two_intervals", f"{tag}: position {int(np.argmax(counts > 1))}")
    kept_total = sum(len(c) for c in chunks)
    if int(counts.sum()) != kept_total:
        ctx.violation("points:membership_total", f"{tag}: {int(counts.sum())} memberships, expected {kept_total}")
    for j, c in enumerate(chunks):
        mem = np.sort(data[M[j]])
        if not np.array_equal(mem, c):
            ctx.violation("points:members", f"{tag}: interval {j} holds {mem.tolist()[:12]} expected the sorted block {c.tolist()[:12]} (masks must address the input positions)")
            return
        exp_ref = f(data[M[j]])
        if not abs(float(refs[j]) - float(exp_ref)) <= 1e-12 * max(1.0, abs(float(exp_ref))):
            ctx.violation("points:reference", f"{tag}: interval {j} reference {refs[j]!r} expected {exp_ref!r}")
            return
    # documented boundaries
    exp_b = []
    lower = chunks[0].min()
    for j in range(len(chunks) - 1):
        up = (chunks[j].max() + chunks[j + 1].min()) / 2
        exp_b.append((lower, up))
        lower = up
    exp_b.append((lower, chunks[-1].max()))
    for j, (b, e) in enumerate(zip(bounds, exp_b)):
        if not (abs(float(b[0]) - e[0]) <= 1e-12 * max(1, abs(e[0])) and abs(float(b[1]) - e[1]) <= 1e-12 * max(1, abs(e[1]))):
            ctx.violation("points:boundaries", f"{tag}: interval {j} boundaries {tuple(map(float, b))} expected {e}")
            return


# ---------------------------------------------------------------------------------------
# part: exhaustive lattice
# ---------------------------------------------------------------------------------------
WIDTHS = [1.0, 0.5, 0.1, 0.3, 0.7]


def lattice(w, sub=False):
    ks = range(9) if not sub else (0, 1, 2, 3, 5, 6, 8)
    vals = set()
    for k in ks:
        vals.add(k * (w / 2))
        vals.add(round(k * w / 2, 6))
    return sorted(vals)


def width_options(w):
    for right_open, ref, vr, m, mi in itertools.product(
        [True, False],
        ["center", "left", "right", "np.median"],
        [None, (0, None), (None, 4 * w), (w / 2, 7 * w / 2)],
        [0, 1, 2],
        [1, 3],
    ):
        yield dict(width=w, right_open=right_open, reference=ref, value_range=vr, min_n_points=m, min_n_intervals=mi)


def number_options(w):
    for nint, incl, ref, vr, m, mi in itertools.product(
        [1, 2, 3, 7],
        [True, False],
        ["center", "left", "right", "np.median"],
        [None, (0, 4 * w), (w / 2, 7 * w / 2)],
        [0, 1, 2],
        [1, 3],
    ):
        yield dict(n_intervals=nint, include_max=incl, reference=ref, value_range=vr, min_n_points=m, min_n_intervals=mi)


def points_options():
    for npts, last_full, ref, m, mi in itertools.product([1, 2, 3, 7], [True, False], ["np.median", "np.mean"], [1, 2], [1, 3]):
        yield dict(n_points=npts, last_full=last_full, reference=ref, min_n_points=m, min_n_intervals=mi)


def check_lattice(case, ctx):
    w, vec = case["width"], case["vector"]
    data = np.array(vec, dtype=float)
    lat = lattice(w)
    unsorted = bool(np.any(np.diff(data) < 0))
    on_edge = any(abs(v / w - round(v / w)) < 1e-9 for v in vec)
    ctx.nontrivial(unsorted or on_edge)
    ctx.cls(f"w={w}", f"len={len(vec)}", "unsorted" if unsorted else "sorted")
    perm = np.arange(len(vec))[::-1]
    n_conf = 0
    for opts in width_options(w):
        n_conf += 1
        tag = f"Width{opts} data={vec}"
        if opts["min_n_points"] == 0 and opts["min_n_intervals"] == 1:
            verify_grid("width", opts, data, ctx, tag)
            verify_equivariance("width", opts, data, perm, ctx, tag)
        else:
            # dropping / rejection rules relative to the unfiltered result
            verify_grid("width", opts, data, ctx, tag)
        if len(ctx.violations) > 6:
            break
    if np.ptp(data) > 0:
        for opts in number_options(w):
            n_conf += 1
            tag = f"NumberOfIntervals{opts} data={vec}"
            verify_grid("number", opts, data, ctx, tag)
            if opts["min_n_points"] == 0 and opts["min_n_intervals"] == 1:
                verify_equivariance("number", opts, data, perm, ctx, tag)
            if len(ctx.violations) > 12:
                break
    for opts in points_options():
        n_conf += 1
        tag = f"PointsPerInterval{opts} data={vec}"
        verify_ppi(opts, data, ctx, tag)
        if len(ctx.violations) > 18:
            break
    ctx.count(n_conf - 1)


def enum_lattice(tier, shard, nshards):
    max_len = 3 if tier == "quick" else 4
    idx = 0
    for w in WIDTHS:
        lat = lattice(w)
        for L in range(1, max_len + 1):
            for vec in itertools.product(lat, repeat=L):
                if idx % nshards == shard:
                    yield dict(width=w, vector=list(vec))
                idx += 1
        if tier == "thorough":
            sub = lattice(w, sub=True)[:7]
            for vec in itertools.product(sub, repeat=5):
                if idx % nshards == shard:
                    yield dict(width=w, vector=list(vec))
                idx += 1


# ---------------------------------------------------------------------------------------
# part: random long vectors
# ---------------------------------------------------------------------------------------
def verify_reuse(kind, opts, data, ctx, tag, seed):
    """history oracle: a slicer that has sliced other data before gives what a fresh slicer of the same options gives
    (seeded change C10e: the range resolved from the first data was kept on the object)"""
    which = seed % 3
    first = [0.35 * data, 2.0 * data + 1.0, data[data <= np.median(data)]][which]
    ctx.cls(f"reuse_first={['calmer', 'wilder', 'lower_half'][which]}")
    try:
        s = make_slicer(kind, opts)
    except Exception:  # noqa: BLE001
        return
    try:
        s.slice_(first)
    except Exception:  # noqa: BLE001  (a refusal of the first record is the slicer's right)
        pass
    try:
        got = ("ok",) + tuple(s.slice_(data))
    except RuntimeError as e:
        got = ("RuntimeError", str(e))
    except Exception as e:  # noqa: BLE001
        got = ("other", e)
    fresh = run_slicer(kind, opts, data)
    if got[0] != fresh[0]:
        ctx.violation(f"reuse:{kind}:outcome", f"{tag}: reused slicer -> {got[0]}, fresh slicer -> {fresh[0]}")
        return
    if got[0] != "ok":
        return
    _, m1, r1, b1 = got
    _, m2, r2, b2 = fresh
    if len(m1) != len(m2):
        ctx.violation(f"reuse:{kind}:interval_count", f"{tag}: reused slicer gives {len(m1)} intervals, a fresh one {len(m2)}")
        return
    same = all(np.array_equal(np.asarray(a), np.asarray(b)) for a, b in zip(m1, m2))
    same = same and np.array_equal(np.asarray(r1, dtype=float), np.asarray(r2, dtype=float), equal_nan=True)
    same = same and np.array_equal(np.asarray(b1, dtype=float), np.asarray(b2, dtype=float), equal_nan=True)
    if not same:
        ctx.violation(f"reuse:{kind}:differs", f"{tag}: a slicer that sliced other data before gives other intervals than a fresh one")


def check_random(case, ctx):
    rng = np.random.default_rng(case["seed"])
    n = case["n"]
    kind = case["kind"]
    base = {"lognormal": lambda: rng.lognormal(0.5, 0.6, n), "weibull": lambda: 2.5 * rng.weibull(1.5, n), "uniform": lambda: rng.uniform(0, 10, n)}[case["dist"]]()
    if case["round"] is not None:
        base = np.round(base, case["round"])
    if case["order"] == "sorted":
        base = np.sort(base)
    elif case["order"] == "reverse":
        base = np.sort(base)[::-1].copy()
    data = base
    opts = dict(case["opts"])
    ctx.cls(f"kind={kind}", f"order={case['order']}", f"round={case['round']}")
    ctx.nontrivial(case["order"] != "sorted" or case["round"] is not None)
    tag = f"{kind}{opts} n={n} dist={case['dist']} round={case['round']} order={case['order']} seed={case['seed']}"
    if kind == "points":
        verify_ppi(opts, data, ctx, tag)
    else:
        if kind == "number" and np.ptp(data) == 0:
            return
        verify_grid(kind, opts, data, ctx, tag)
    perm = np.random.default_rng(case["seed"] + 1).permutation(n)
    verify_equivariance(kind, opts, data, perm, ctx, tag)
    verify_reuse(kind, opts, data, ctx, tag, case["seed"])


def strat_random(tier):
    big = 20000 if tier == "thorough" else 5000

    @st.composite
    def s(draw):
        kind = draw(st.sampled_from(["width", "number", "points"]))
        n = draw(st.one_of(st.integers(50, 400), st.integers(50, big)))
        m = draw(st.sampled_from([0, 1, 5, 20, 50]))
        mi = draw(st.sampled_from([1, 3, 5]))
        if kind == "width":
            opts = dict(
                width=draw(st.sampled_from([0.1, 0.25, 0.3, 0.5, 0.7, 1.0, 2.0])),
                right_open=draw(st.booleans()),
                reference=draw(st.sampled_from(["center", "left", "right", "np.median"])),
                value_range=draw(st.sampled_from([None, (0, None), (None, 6.0), (1.0, 5.0), (0.5, 30.0), (0.3, None)])),
                min_n_points=m,
                min_n_intervals=mi,
            )
        elif kind == "number":
            opts = dict(
                n_intervals=draw(st.integers(1, 25)),
                include_max=draw(st.booleans()),
                reference=draw(st.sampled_from(["center", "left", "right", "np.median"])),
                value_range=draw(st.sampled_from([None, None, (0, 10.0), (1.0, 5.0), (0.5, 30.0)])),
                min_n_points=m,
                min_n_intervals=mi,
            )
        else:
            opts = dict(
                n_points=draw(st.one_of(st.integers(1, 60), st.integers(1, 2 * n))),
                last_full=draw(st.booleans()),
                reference=draw(st.sampled_from(["np.median", "np.mean"])),
                min_n_points=max(1, m),
                min_n_intervals=mi,
            )
        return dict(
            kind=kind,
            n=n,
            seed=draw(st.integers(0, 2**31 - 2)),
            dist=draw(st.sampled_from(["lognormal", "weibull", "uniform"])),
            round=draw(st.sampled_from([None, 1, 2, 1, 0])),
            order=draw(st.sampled_from(["random", "random", "sorted", "reverse"])),
            opts=opts,
        )

    return s()


PARTS = [
    Part("lattice", check_lattice, enumerate=enum_lattice, quick=1, thorough=1),
    Part("random", check_random, strat_random, quick=1500, thorough=30000, min_nontrivial_frac=0.3),
]
