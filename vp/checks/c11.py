"""C11 - fixed parameters are honoured at construction, in evaluation and through fitting."""

import itertools
import math

import numpy as np
from hypothesis import strategies as st

from vp.runner import Part
from vp.gen import families as fam
from vp.oracles import formulas as F
from vp import build

ID = "C11"
LEVEL = "exploration"
RULE = (
    "The lattice (family x non-empty proper subset of fixed parameters x fit method x data source) is enumerated (56 subsets over 12 "
    "families; every cell is sampled by Hypothesis and the class histogram is recorded); fixed values, start values, sample sizes "
    "(200-3000) and data (from the same family or from another family with compatible support) are generated. Oracle: the fixed value is "
    "in .parameters and f_<name> from construction on, evaluation equals the instance constructed with that value, fit raises only the "
    "documented NotImplementedError for unsupported least-squares subsets, after fit and re-fit |value - fixed| <= 1e-12 relative while "
    "free parameters are finite, admissible and estimated; in a ConditionalDistribution a fixed parameter is the same for every g before "
    "and after fitting. Non-trivial: every case (a fit with at least one fixed and one free parameter); distinct by sha1 of the case."
)
ASSUMPTIONS = [
    "fixed location-like values are generated compatible with the data support (e.g. f_gamma below the smallest observation)",
    "least squares is implemented for the exponentiated Weibull with only delta fixed; other fixed subsets must raise NotImplementedError (counted as rejected_by_contract)",
]

POSITIVE = {
    "Weibull": ["alpha", "beta"],
    "LogNormal": ["sigma"],
    "Normal": ["sigma"],
    "ExponentiatedWeibull": ["alpha", "beta", "delta"],
    "GeneralizedGamma": ["m", "lambda_"],  # scipy.stats.gengamma (the delegate) admits c < 0
    "VonMises": ["kappa"],
    "LogNormalNormFit": ["mu_norm", "sigma_norm"],
    "ScipyGamma": ["a", "scale"],
    "ScipyGumbelR": ["scale"],
    "ScipyRayleigh": ["scale"],
    "ScipyGenGamma": ["a", "scale"],  # scipy admits c < 0
    "ScipyGenExtreme": ["scale"],
}
REAL_SUPPORT = {"Normal", "ScipyGumbelR", "ScipyGenExtreme"}
LOC_PARAM = {"Weibull": "gamma", "ScipyGamma": "loc", "ScipyRayleigh": "loc", "ScipyGenGamma": "loc"}


def subsets(names):
    out = []
    for r in range(1, len(names)):
        out.extend(list(c) for c in itertools.combinations(names, r))
    return out


CELLS = []
for _f in fam.ALL:
    for _s in subsets(F.param_names(_f)):
        CELLS.append((_f, tuple(_s), "mle"))
for _s in subsets(F.param_names("ExponentiatedWeibull")):
    CELLS.append(("ExponentiatedWeibull", tuple(_s), "lsq"))
    CELLS.append(("ExponentiatedWeibull", tuple(_s), "wlsq"))


def make_data(case):
    src = case["source"]
    d = build.dist(src["family"], src["params"])
    x = np.asarray(d.draw_sample(case["n"], random_state=case["seed"]), dtype=float)
    return x


def check_fixed(case, ctx):
    family, fixed_names, method = case["family"], case["fixed_names"], case["method"]
    names = F.param_names(family)
    ctx.cls(f"{family}/{'+'.join(fixed_names)}/{method}", f"source={'same' if case['source']['family'] == family else 'other'}")
    ctx.nontrivial()
    data = make_data(case)
    values = dict(case["values"])
    fixed = {k: values[k] for k in fixed_names}
    # location-like fixed values must lie below the data
    loc = LOC_PARAM.get(family)
    if loc in fixed and not (fixed[loc] == 0 and data.min() > 0):  # a location fixed at exactly 0 is kept (boundary value)
        fixed[loc] = float(case["loc_frac"] * data.min()) if data.min() > 0 else float(data.min() - abs(case["loc_frac"]) - 0.1)
    start = {k: v for k, v in case["start"].items() if k not in fixed}
    if loc in start:
        start[loc] = float(min(start[loc], 0.5 * data.min())) if data.min() > 0 else float(data.min() - 1.0)
    for k_ in list(start):
        # a non-zero start of magnitude < 1e-6 (6e-08) freezes that coordinate of scipy's simplex (its first step is 5 %
        # of the start value): not a start value anyone passes; the same convention as in C14
        if k_ in ("mu", "loc", "gamma") and 0 < abs(start[k_]) < 1e-6:
            start[k_] = 0.0

    # 1. construction
    with_start = case["with_start"] or family in ("LogNormalNormFit",)  # LNNF's defaults (mu_norm=0) are not a distribution
    ok, d = ctx.call(f"construct:{family}", build.dist, family, start if with_start else None, fixed)
    if not ok:
        return
    for k, v in fixed.items():
        if d.parameters[k] != v or getattr(d, f"f_{k}") != v:
            ctx.violation(f"construction:{family}:{k}", f"f_{k}={v!r} but parameters[{k!r}]={d.parameters[k]!r}, f_{k} attribute={getattr(d, 'f_' + k)!r}")
            return
    # 2. evaluation uses the fixed value
    full = dict(d.parameters)
    twin = build.dist(family, full)
    xs = np.quantile(data, [0.2, 0.5, 0.8])
    for mth, arg in (("cdf", xs), ("pdf", xs), ("icdf", np.array([0.2, 0.5, 0.8]))):
        a = np.asarray(getattr(d, mth)(arg), dtype=float)
        b = np.asarray(getattr(twin, mth)(arg), dtype=float)
        if not np.array_equal(a, b, equal_nan=True):
            ctx.violation(f"evaluation:{family}:{mth}", f"fixed={fixed}: {a.tolist()} vs instance constructed with the values {b.tolist()}")
    before = dict(d.parameters)
    with np.errstate(all="ignore"):
        ll_start = float(np.sum(np.log(np.asarray(d.pdf(data), dtype=float))))

    # 3. fit
    weights = case.get("weights")
    loc_inside = loc in fixed and case["loc_frac"] >= 1 and data.min() > 0 and fixed[loc] >= data.min()
    if loc_inside:
        # data reaching below the fixed location have zero likelihood: nothing is claimed about the free parameters
        # (the fit may return its start values or refuse), but a returned fit must still carry the fixed values
        ctx.cls("fixed_location_inside_data")
        try:
            if method == "mle":
                d.fit(data)
            else:
                d.fit(data, method=method, weights=weights)
        except Exception as e:  # noqa: BLE001
            ctx.cls(f"fixed_location_inside_data:raises:{type(e).__name__}")
            ctx.rejected_by_contract()
            return
        for k, v in fixed.items():
            is_loc = k in ("mu", "loc", "gamma")
            if not abs(float(d.parameters[k]) - v) <= 1e-12 * (max(abs(v), 1.0) if is_loc else abs(v)):
                ctx.violation(f"fixed_changed:{family}:{k}:{method}:location_inside_data", f"f_{k}={v!r} (smallest observation {data.min()!r}) but after fit {k}={d.parameters[k]!r}")
                return
        return
    try:
        if method == "mle":
            d.fit(data)
        else:
            d.fit(data, method=method, weights=weights)
    except NotImplementedError:
        if method in ("lsq", "wlsq") and not (set(fixed_names) == {"delta"}):
            ctx.rejected_by_contract()
            return
        ctx.violation(f"fit_raises:{family}:{method}:NotImplementedError", f"fixed={list(fixed)}")
        return
    except Exception as e:  # noqa: BLE001
        ctx.violation(f"fit_raises:{family}:{method}:{'+'.join(fixed_names)}:{type(e).__name__}", f"fixed={fixed} n={len(data)} source={case['source']}: {type(e).__name__}: {str(e)[:200]}")
        return
    if method in ("lsq", "wlsq") and set(fixed_names) != {"delta"}:
        ctx.violation(f"lsq_unsupported_subset_accepted:{'+'.join(fixed_names)}", "least squares with this fixed subset is documented as not implemented, but fit returned")
        return

    def after_fit(label):
        p = d.parameters
        for k, v in fixed.items():
            # location-like parameters (angles, means, offsets) live on an additive scale: round-off is
            # relative to max(|v|, 1), not to a value that happens to be close to 0
            is_loc = k in ("mu", "loc", "gamma")
            if not abs(float(p[k]) - v) <= 1e-12 * (max(abs(v), 1.0) if is_loc else abs(v)):
                ctx.violation(f"fixed_changed:{family}:{k}:{method}", f"{label}: f_{k}={v!r} but after fit {k}={p[k]!r}")
                return False
        if method == "mle" and not math.isfinite(ll_start):
            # data with (numerically) zero likelihood under the fixed values whatever the free ones are (alpha fixed at
            # 0.1 for data around 27): there is nothing to estimate from, the simplex drifts; only the fixed values
            # are judged
            ctx.cls("degenerate_likelihood_under_the_fixed_values")
            return True
        for k in names:
            if k in fixed:
                continue
            val = float(p[k])
            if not math.isfinite(val):
                ctx.violation(f"free_nonfinite:{family}:{k}:{method}", f"{label}: {k}={val!r} fixed={fixed}")
                return False
            if k in POSITIVE.get(family, []) and not val > 0:
                ctx.violation(f"free_inadmissible:{family}:{k}:{method}", f"{label}: {k}={val!r} fixed={fixed}")
                return False
        return True

    if not after_fit("fit"):
        return
    free = [k for k in names if k not in fixed]
    # "the non-fixed parameters are estimated" by maximum likelihood *given* the fixed ones: the fit must not end below
    # the likelihood of its own start (e.g. a closed-form sigma centred on the sample mean instead of the fixed mu).
    # LogNormalNormFit's 'mle' is the moment estimator by design (KF-C12-4) and is not judged here.
    if method == "mle" and family != "LogNormalNormFit" and math.isfinite(ll_start):
        with np.errstate(all="ignore"):
            ll_fit = float(np.sum(np.log(np.asarray(d.pdf(data), dtype=float))))
        if math.isfinite(ll_fit) and ll_fit < ll_start - (1e-6 * abs(ll_start) + 1e-2):
            ctx.violation(f"fixed_fit_loses_likelihood:{family}:{'+'.join(fixed_names)}", f"fixed={fixed} start={before}: log-likelihood {ll_start!r} at the start values, {ll_fit!r} after the fit ({dict(d.parameters)})")
            return
    # for the two families whose restricted MLE is a smooth one-parameter problem (no ridge, no boundary optimum):
    # the free parameter must be (near) the maximiser *given the fixed value* - a 20 % move of it must not gain likelihood
    if method == "mle" and family in ("LogNormal", "Normal") and len(free) == 1:
        with np.errstate(all="ignore"):
            ll_fit = float(np.sum(np.log(np.asarray(d.pdf(data), dtype=float))))
        k = free[0]
        v = float(d.parameters[k])
        sig = float(d.parameters["sigma"])
        cands = (v * 0.8, v * 1.25) if k == "sigma" else (v - 0.2 * sig, v + 0.2 * sig)
        for cand in cands:
            alt = dict(d.parameters)
            alt[k] = cand
            with np.errstate(all="ignore"):
                ll_alt = float(np.sum(np.log(np.asarray(build.dist(family, {a: float(b) for a, b in alt.items()}).pdf(data), dtype=float))))
            if math.isfinite(ll_fit) and math.isfinite(ll_alt) and ll_alt > ll_fit + max(0.5, 1e-4 * abs(ll_fit)):
                ctx.violation(f"fixed_fit_not_optimal:{family}:{'+'.join(fixed_names)}", f"fixed={fixed}: fitted {k}={v!r} has log-likelihood {ll_fit!r}, {k}={cand!r} has {ll_alt!r}")
                return
    # "estimated": only meaningful when the start values give the data a finite likelihood
    if math.isfinite(ll_start) and all(float(d.parameters[k]) == float(before[k]) for k in free):
        # returning the start values is only wrong when they are not already the estimate: look for an admissible
        # alternative of the free parameters with a clearly better likelihood (a location at its boundary optimum
        # min(x) ~ 1e-4 next to a start of 0 is within the optimiser's xtol and legitimately stays put)
        better = None
        for k in free:
            v0 = float(before[k])
            for cand in (v0 * 1.1, v0 * 0.9, v0 + 0.1 * (abs(v0) + 1), v0 - 0.1 * (abs(v0) + 1), v0 * 2, v0 / 2):
                alt = dict(before)
                alt[k] = cand
                try:
                    with np.errstate(all="ignore"):
                        ll_alt = float(np.sum(np.log(np.asarray(build.dist(family, alt).pdf(data), dtype=float))))
                except Exception:  # noqa: BLE001  (inadmissible alternative)
                    continue
                if math.isfinite(ll_alt) and ll_alt > ll_start + max(0.5, 1e-6 * abs(ll_start)):
                    better = (k, cand, ll_alt)
                    break
            if better:
                break
        if better:
            ctx.violation(f"free_not_estimated:{family}:{method}", f"free parameters {free} still at their start values {before} after fit although {better[0]}={better[1]!r} has log-likelihood {better[2]!r} > {ll_start!r}")
        else:
            ctx.cls("start_already_optimal")
    # evaluation after fit still uses the fixed value
    twin = build.dist(family, dict(d.parameters))
    a = np.asarray(d.cdf(xs), dtype=float)
    b = np.asarray(twin.cdf(xs), dtype=float)
    if not np.array_equal(a, b, equal_nan=True):
        ctx.violation(f"evaluation_after_fit:{family}", f"{a.tolist()} vs {b.tolist()}")
    # 5. re-fit keeps it
    try:
        if method == "mle":
            d.fit(data[::-1].copy())
        else:
            d.fit(data[::-1].copy(), method=method, weights=weights)
    except Exception as e:  # noqa: BLE001
        ctx.violation(f"refit_raises:{family}:{method}:{type(e).__name__}", str(e)[:200])
        return
    after_fit("re-fit")


def _source(family):
    if family == "VonMises":
        return st.one_of(
            fam.PLAUSIBLE["VonMises"]().map(lambda p: dict(family="VonMises", params=p)),
            st.builds(lambda m, s: dict(family="Normal", params=dict(mu=m, sigma=s)), fam.uni(-1, 1), fam.logu(0.3, 1.0)),
        )
    same = fam.PLAUSIBLE[family]().map(lambda p: dict(family=family, params=p))
    if family in REAL_SUPPORT:
        others = [fam.PLAUSIBLE["Normal"]().map(lambda p: dict(family="Normal", params=p)),
                  fam.PLAUSIBLE["ScipyGumbelR"]().map(lambda p: dict(family="ScipyGumbelR", params=p))]
    else:
        others = [
            st.builds(lambda a, b: dict(family="Weibull", params=dict(alpha=a, beta=b, gamma=0.0)), fam.logu(0.5, 8), fam.logu(0.8, 3)),
            fam.PLAUSIBLE["LogNormal"]().map(lambda p: dict(family="LogNormal", params=p)),
            fam.PLAUSIBLE["GeneralizedGamma"]().map(lambda p: dict(family="GeneralizedGamma", params=p)),
        ]
    return st.one_of(same, same, *others)


def strat_fixed(tier):
    @st.composite
    def s(draw):
        family, fixed_names, method = draw(st.sampled_from(CELLS))
        values = dict(draw(fam.PLAUSIBLE[family]()))
        # boundary values a user may legitimately fix: 0 for location-like parameters, 1 for scales / shapes
        for k in fixed_names:
            if draw(st.integers(0, 3)) == 0:
                if k in ("mu", "loc", "gamma") and family != "LogNormalNormFit":
                    values[k] = draw(st.sampled_from([0.0, 0, -0.0]))
                elif k in POSITIVE.get(family, []):
                    values[k] = draw(st.sampled_from([1.0, 1]))
            elif family == "VonMises" and k == "mu" and draw(st.integers(0, 1)) == 0:
                # a mean direction given outside [-pi, pi] (scipy's own fit wraps locations)
                values[k] = draw(st.sampled_from([4.0, -5.0, 7.5]))
        start = draw(fam.PLAUSIBLE[family]())
        weights = None
        if method == "wlsq":
            weights = draw(st.sampled_from(["linear", "quadratic", "cubic"]))
        return dict(
            family=family,
            fixed_names=list(fixed_names),
            method=method,
            values=values,
            start=start,
            with_start=draw(st.booleans()),
            # (>= 1: the fixed location lies at / above the smallest observation - calms below an assumed threshold)
            loc_frac=draw(st.one_of(st.floats(0.0, 0.9), st.floats(0.0, 0.9), st.floats(0.0, 0.9), st.sampled_from([1.0, 1.3, 2.5]))),
            source=draw(_source(family)),
            n=draw(st.integers(200, 3000)),
            seed=draw(st.integers(0, 2**31 - 1)),
            weights=weights,
        )

    return s()


# ------------------------------------------------------------------ part: conditional
def check_conditional_fixed(case, ctx):
    from virocon import DependenceFunction
    from virocon.distributions import ConditionalDistribution
    from vp.gen import depshapes

    family, fixed_names = case["family"], case["fixed_names"]
    names = F.param_names(family)
    ctx.cls(f"cond:{family}/{'+'.join(fixed_names)}")
    ctx.nontrivial()
    values = dict(case["values"])
    fixed = {k: values[k] for k in fixed_names}
    loc = LOC_PARAM.get(family)
    if loc in fixed:
        fixed[loc] = 0.0
    template = build.dist(family, None, fixed)
    deps = {}
    for k in names:
        if k in fixed:
            continue
        fn = depshapes.python_callable("linear2")
        df = DependenceFunction(fn, bounds=[(None, None), (None, None)])
        df.parameters = {"a": float(values[k]), "b": 0.0}
        deps[k] = df
    ok, cond = ctx.call(f"cond_construct:{family}", ConditionalDistribution, template, deps)
    if not ok:
        return
    gs = case["gs"]

    def check_const(label):
        # conditioning values in every form a caller passes: float / int scalars, numpy scalars, float / int arrays
        gi = [int(round(g)) for g in gs]
        for g in gs + [np.array(gs)] + gi[:1] + [np.array(gi), np.int64(gi[0]), np.float64(gs[0]), np.array(gs[0])]:
            pv = cond._get_param_values(g)
            for k, v in fixed.items():
                if not np.all(np.asarray(pv[k]) == v):
                    ctx.violation(f"cond_fixed_varies:{family}:{k}", f"{label}: g={g!r} -> {k}={pv[k]!r}, fixed at {v!r}")
                    return False
        return True

    if not check_const("before fit"):
        return
    # fit on three intervals of data from the family itself
    rng_seed = case["seed"]
    intervals = []
    for i in range(3):
        p = dict(values)
        p.update(fixed)
        x = np.asarray(build.dist(family, p).draw_sample(case["n"], random_state=rng_seed + i), dtype=float)
        intervals.append(x)
    try:
        cond.fit(intervals, [1.0, 2.0, 3.0], [(0.5, 1.5), (1.5, 2.5), (2.5, 3.5)], "mle")
    except Exception as e:  # noqa: BLE001
        ctx.violation(f"cond_fit_raises:{family}:{'+'.join(fixed_names)}:{type(e).__name__}", str(e)[:200])
        return
    for i, pp in enumerate(cond.parameters_per_interval):
        for k, v in fixed.items():
            # (location-like parameters live on an additive scale, as in part `fixed`)
            if not abs(float(pp[k]) - v) <= 1e-12 * (max(abs(v), 1.0) if k in ("mu", "loc", "gamma") else abs(v)):
                ctx.violation(f"cond_fixed_changed:{family}:{k}", f"interval {i}: {k}={pp[k]!r}, fixed at {v!r}")
                return
    check_const("after fit")
    # the template itself keeps its parameters (also C19)
    for k, v in fixed.items():
        if template.parameters[k] != v:
            ctx.violation(f"cond_template_changed:{family}:{k}", f"{template.parameters}")


def strat_cond(tier):
    @st.composite
    def s(draw):
        cells = [c for c in CELLS if c[2] == "mle" and c[0] in ("Weibull", "LogNormal", "Normal", "ExponentiatedWeibull", "GeneralizedGamma", "VonMises", "LogNormalNormFit", "ScipyGamma")]
        family, fixed_names, _ = draw(st.sampled_from(cells))
        return dict(
            family=family,
            fixed_names=list(fixed_names),
            values=draw(fam.PLAUSIBLE[family]()),
            gs=draw(st.lists(st.floats(0.0, 20.0), min_size=2, max_size=4)),
            n=draw(st.integers(200, 800)),
            seed=draw(st.integers(0, 2**31 - 10)),
        )

    return s()


PARTS = [
    Part("fixed", check_fixed, strat_fixed, quick=900, thorough=20000, shrink_quick=False),
    Part("conditional", check_conditional_fixed, strat_cond, quick=200, thorough=4000, shrink_quick=False),
]
