"""C12 - maximum-likelihood fits do not lose likelihood and are scale-equivariant."""

import math

import numpy as np
from hypothesis import strategies as st

from vp.runner import Part
from vp.gen import families as fam
from vp.oracles import formulas as F
from vp import build

ID = "C12"
LEVEL = "exploration"
RULE = (
    "Hypothesis draws a family, generating parameters from its regular region (3-parameter Weibull beta >= 0.8, EW beta >= 0.6, ...), "
    "a sample size 100-5000, a seed, default or generated start values and a scale factor; cases whose sample median leaves [0.05, 20] "
    "(before or after scaling) are skipped and counted. Oracle: log-likelihood (harness: sum of log of the fitted instance's pdf, cross-checked "
    "by the reference formulas) after fitting >= at the start values and >= at the generating parameters (tolerance 1e-6*|ll| + 1e-2); fitted "
    "parameters finite and admissible; scale equivariance parameter-wise for closed-form / well identified families and through the fitted law "
    "(per-observation likelihood shift ln c, quantile ratio) for ridge families. Non-trivial: the optimiser improved the start likelihood by > 1."
)
ASSUMPTIONS = [
    "regular parameter regions and data magnitudes as stated in the property's quantifier; nothing is claimed about global optimality beyond the alternatives tried (start, truth, scaled fit)",
    "ridge families (exponentiated Weibull, generalised gamma, 3-parameter Weibull, scipy subclasses) are compared through the fitted law, not parameter by parameter: per-observation log-likelihood shift within 1e-2 of ln c and quantile ratio within 5e-2 on p in [0.01, 0.99] ('optimiser tolerance' of Nelder-Mead on flat ridges, calibrated on the unchanged tree where both fits individually beat the generating parameters)",
    "known findings of this property are statistical (optimiser start/stall); their incidence is guarded by RATE_LIMITS so that a change that makes them much more frequent is still a violation",
]

REGULAR = {
    "Weibull": lambda: st.fixed_dictionaries(dict(alpha=fam.logu(0.3, 10), beta=fam.logu(0.8, 4), gamma=st.one_of(st.just(0.0), fam.uni(0.0, 2.0)))),
    "Weibull2p": lambda: st.fixed_dictionaries(dict(alpha=fam.logu(0.3, 10), beta=fam.logu(0.8, 4))),
    "LogNormal": lambda: st.fixed_dictionaries(dict(mu=fam.uni(-1, 2.3), sigma=fam.logu(0.1, 0.8))),
    "Normal": lambda: st.fixed_dictionaries(dict(mu=fam.uni(0.5, 15), sigma=fam.logu(0.2, 5))),
    "LogNormalNormFit": lambda: st.tuples(fam.logu(0.3, 15), fam.logu(0.1, 0.8)).map(lambda t: dict(mu_norm=t[0], sigma_norm=t[0] * t[1])),
    "ExponentiatedWeibull": lambda: st.fixed_dictionaries(dict(alpha=fam.logu(0.3, 8), beta=fam.logu(0.6, 3), delta=fam.logu(0.5, 8))),
    "GeneralizedGamma": lambda: st.fixed_dictionaries(dict(m=fam.logu(0.7, 6), c=fam.logu(0.7, 3), lambda_=fam.logu(0.1, 4))),
    "VonMises": lambda: st.fixed_dictionaries(dict(kappa=fam.logu(0.3, 15), mu=fam.uni(-2, 2))),
    "ScipyGamma": lambda: st.fixed_dictionaries(dict(a=fam.logu(1.0, 8), loc=st.just(0.0), scale=fam.logu(0.2, 4))),
    "ScipyGumbelR": lambda: st.fixed_dictionaries(dict(loc=fam.uni(1, 12), scale=fam.logu(0.2, 3))),
    "ScipyRayleigh": lambda: st.fixed_dictionaries(dict(loc=st.just(0.0), scale=fam.logu(0.3, 8))),
    "ScipyGenExtreme": lambda: st.fixed_dictionaries(dict(c=fam.uni(-0.3, 0.3).map(lambda v: round(v, 3)), loc=fam.uni(2, 12), scale=fam.logu(0.3, 3))),
}
FAMS = list(REGULAR.keys())
CLOSED = {"Normal": 1e-8, "LogNormal": 1e-6, "LogNormalNormFit": 1e-10, "Weibull2p": 1e-3}
POSITIVE = {
    "Weibull": ["alpha", "beta"], "Weibull2p": ["alpha", "beta"], "LogNormal": ["sigma"], "Normal": ["sigma"],
    "ExponentiatedWeibull": ["alpha", "beta", "delta"], "GeneralizedGamma": ["m", "lambda_"], "VonMises": ["kappa"],
    "LogNormalNormFit": ["mu_norm", "sigma_norm"], "ScipyGamma": ["a", "scale"], "ScipyGumbelR": ["scale"], "ScipyRayleigh": ["scale"],
    "ScipyGenExtreme": ["scale"],
}


def real_family(f):
    return "Weibull" if f == "Weibull2p" else f


def make(f, params=None):
    if f == "Weibull2p":
        p = {k: v for k, v in (params or {}).items() if k != "gamma"}
        return build.dist("Weibull", p, dict(gamma=0.0))
    return build.dist(f, params)


def loglik(d, x):
    with np.errstate(all="ignore"):
        v = np.log(np.asarray(d.pdf(x), dtype=float))
    return float(np.sum(v))


def check_mle(case, ctx):
    f, truth, n, c = case["family"], case["truth"], case["n"], case["scale"]
    rf = real_family(f)
    tp = dict(truth)
    if f == "Weibull2p":
        tp["gamma"] = 0.0
    x = np.asarray(build.dist(rf, tp).draw_sample(n, random_state=case["seed"]), dtype=float)
    med = float(np.median(np.abs(x))) if f != "VonMises" else 1.0
    if f != "VonMises" and not (0.05 <= med <= 20 and 0.05 <= c * med <= 20):
        ctx.cls("skipped:magnitude")
        return
    start = case["start"]
    sk = "default" if start is None else "user"
    ctx.cls(f"family={f}", f"start={sk}")
    d = make(f, start)
    try:
        ll_start = loglik(d, x)
    except ZeroDivisionError:  # LogNormalNormFit's defaults (mu_norm=0) are not a distribution
        ll_start = -math.inf
    try:
        d.fit(x)
    except Exception as e:  # noqa: BLE001
        ctx.violation(f"fit_raises:{f}:{type(e).__name__}" + f":{sk}_start", f"truth={truth} n={n} seed={case['seed']} start={start}: {str(e)[:200]}")
        return
    p = {k: float(v) for k, v in d.parameters.items()}
    tag = f"family={f} truth={truth} n={n} seed={case['seed']} start={start or 'default'} fitted={p}"
    for k, v in p.items():
        if not math.isfinite(v) or (k in POSITIVE[f] and not v > 0):
            ctx.violation(f"inadmissible:{f}:{k}", tag)
            return
    ll_fit = loglik(d, x)
    ll_truth = loglik(build.dist(rf, tp), x)
    tau = 1e-6 * abs(ll_fit if math.isfinite(ll_fit) else ll_truth) + 1e-2
    ctx.nontrivial(math.isfinite(ll_start) and ll_fit - ll_start > 1 or not math.isfinite(ll_start))
    gfree = f == "Weibull"
    if not math.isfinite(ll_fit):
        ctx.violation(f"ll_nonfinite:{f}" + (":gamma_free" if gfree else "") + f":{sk}_start", f"{tag}: ll(fit)={ll_fit!r} ll(truth)={ll_truth!r}")
        return
    if math.isfinite(ll_start) and ll_fit < ll_start - tau:
        ctx.violation(f"ll_below_start:{f}" + (":gamma_free" if gfree else "") + f":{sk}_start", f"{tag}: ll(fit)={ll_fit!r} < ll(start)={ll_start!r}")
    if ll_fit < ll_truth - tau:
        ctx.violation(f"ll_below_truth:{f}" + (":gamma_free" if gfree else "") + f":{sk}_start", f"{tag}: ll(fit)={ll_fit!r} < ll(truth)={ll_truth!r} (deficit {ll_truth - ll_fit:.4g})")
        return  # an unconverged fit says nothing about equivariance
    # a second fit of the same data starts from the fitted parameters: it must not lose likelihood either
    try:
        d.fit(x)
        ll_refit = loglik(d, x)
        if not math.isfinite(ll_refit) or ll_refit < ll_fit - tau:
            ctx.violation(f"ll_below_start:refit:{f}" + (":gamma_free" if gfree else ""), f"{tag}: a second fit of the same data (start = fitted parameters, ll={ll_fit!r}) ends at ll={ll_refit!r}, parameters {dict(d.parameters)}")
            return
        d = make(f, p)  # continue with the first fit's parameters
    except Exception as e:  # noqa: BLE001
        ctx.violation(f"refit_raises:{f}:{type(e).__name__}", f"{tag}: {str(e)[:200]}")
        return
    # scale equivariance
    if f == "VonMises":
        return
    d2 = make(f, start)
    try:
        d2.fit(c * x)
    except Exception as e:  # noqa: BLE001
        ctx.violation(f"fit_raises_scaled:{f}:{type(e).__name__}", f"{tag} scale={c}: {str(e)[:200]}")
        return
    p2 = {k: float(v) for k, v in d2.parameters.items()}
    ll2 = loglik(d2, c * x)
    if not math.isfinite(ll2) or ll2 < (ll_truth - n * math.log(c)) - tau:
        # the scaled fit itself did not converge: reported by the likelihood oracles on its own draw
        ctx.cls("scaled_fit_unconverged")
        if math.isfinite(ll2) is False or ll2 < (ll_truth - n * math.log(c)) - tau:
            ctx.violation(f"ll_below_truth_scaled:{f}" + (":gamma_free" if gfree else "") + f":{sk}_start", f"{tag} scale={c}: ll(fit of c*x)={ll2!r} < ll(truth)={ll_truth - n * math.log(c)!r}")
        return
    if f in CLOSED:
        rt = CLOSED[f]
        exp = {}
        if f == "Normal":
            exp = dict(mu=p["mu"] * c, sigma=p["sigma"] * c)
        elif f == "LogNormal":
            exp = dict(mu=p["mu"] + math.log(c), sigma=p["sigma"])
        elif f == "LogNormalNormFit":
            exp = dict(mu_norm=p["mu_norm"] * c, sigma_norm=p["sigma_norm"] * c)
        elif f == "Weibull2p":
            exp = dict(alpha=p["alpha"] * c, beta=p["beta"], gamma=0.0)
        for k, v in exp.items():
            scale_ = max(abs(v), abs(p2[k]), 1e-3 if k in ("mu", "gamma") else 0.0)
            if abs(p2[k] - v) > rt * scale_ + (1e-12 if k in ("mu", "gamma") else 0):
                ctx.violation(f"equivariance:{f}:{k}", f"{tag} scale={c}: fitted to c*x {p2}, expected {k}={v!r}")
                return
    else:
        # families with a free location and shape <= 1 have an unbounded likelihood (the optimiser climbs the
        # singularity at min(x) to an arbitrary height): equivariance of "the" estimate is only defined in the
        # regular regime
        shape_key = {"Weibull": "beta", "ScipyGamma": "a"}.get(f)
        if shape_key and not (truth[shape_key] >= 1.5 and p[shape_key] >= 1.2 and p2[shape_key] >= 1.2):
            ctx.cls("equivariance_skipped:nonregular_location_mle")
            return
        # through the fitted law
        if abs(ll2 / n - ll_fit / n + math.log(c)) > 1e-2:
            ctx.violation(f"equivariance_ll:{f}" + f":{sk}_start", f"{tag} scale={c}: ll/n {ll_fit / n!r} vs scaled {ll2 / n!r} + ln c = {ll2 / n + math.log(c)!r}")
            return
        q = np.linspace(0.01, 0.99, 50)
        Q1 = np.asarray(d.icdf(q), dtype=float)
        Q2 = np.asarray(d2.icdf(q), dtype=float)
        with np.errstate(all="ignore"):
            ratio = np.abs(Q2 / (c * Q1) - 1)
        ok = ratio <= 5e-2
        ok |= np.abs(Q2 - c * Q1) <= 5e-2 * c * med
        if not ok.all():
            i = int(np.argmin(ok))
            ctx.violation(f"equivariance_quantile:{f}" + f":{sk}_start", f"{tag} scale={c}: Q_c({q[i]:.2f})={Q2[i]!r} vs c*Q={c * Q1[i]!r} (fitted to c*x: {p2})")


def strat_mle(tier):
    @st.composite
    def s(draw):
        f = draw(st.sampled_from(FAMS))
        truth = draw(REGULAR[f]())
        start = None
        if draw(st.integers(0, 2)) == 0:
            start = draw(REGULAR[f]())
            if f == "Weibull":
                start["gamma"] = 0.0
        return dict(
            family=f,
            truth=truth,
            n=draw(st.integers(100, 5000)),
            seed=draw(st.integers(0, 2**31 - 1)),
            start=start,
            scale=draw(st.sampled_from([0.25, 0.5, 2.0, 3.0, 1.7, 0.6])),
        )

    return s()


# (signature prefix, class whose count is the denominator, max fraction, min denominator)
RATE_LIMITS = [
    ("ll_below_truth:Weibull:gamma_free", "mle/family=Weibull", 0.20, 40),
    ("ll_below_truth_scaled:Weibull:gamma_free", "mle/family=Weibull", 0.20, 40),
    ("equivariance_ll:Weibull", "mle/family=Weibull", 0.05, 40),
    ("equivariance_quantile:Weibull", "mle/family=Weibull", 0.05, 40),
    ("ll_below_truth:ScipyGamma", "mle/family=ScipyGamma", 0.12, 40),
    ("ll_below_truth_scaled:ScipyGamma", "mle/family=ScipyGamma", 0.20, 40),
    ("ll_nonfinite:ScipyGenExtreme:user_start", "mle/family=ScipyGenExtreme", 0.04, 40),
    ("equivariance_ll:ScipyGamma", "mle/family=ScipyGamma", 0.05, 40),
    ("equivariance_quantile:ScipyGamma", "mle/family=ScipyGamma", 0.05, 40),
    ("ll_below_truth:ScipyGenExtreme", "mle/family=ScipyGenExtreme", 0.08, 40),
    ("ll_below_truth_scaled:ScipyGenExtreme", "mle/family=ScipyGenExtreme", 0.12, 40),
    ("equivariance_ll:ScipyGenExtreme", "mle/family=ScipyGenExtreme", 0.05, 40),
    ("equivariance_quantile:ScipyGenExtreme", "mle/family=ScipyGenExtreme", 0.08, 40),
    ("equivariance_ll:GeneralizedGamma:user_start", "mle/family=GeneralizedGamma", 0.04, 40),
    ("equivariance_quantile:GeneralizedGamma:user_start", "mle/family=GeneralizedGamma", 0.04, 40),
    ("ll_below_truth:GeneralizedGamma:user_start", "mle/family=GeneralizedGamma", 0.08, 40),
    ("ll_below_truth_scaled:GeneralizedGamma:user_start", "mle/family=GeneralizedGamma", 0.08, 40),
    ("ll_below_truth:ExponentiatedWeibull:user_start", "mle/family=ExponentiatedWeibull", 0.04, 40),
    ("ll_below_truth_scaled:ExponentiatedWeibull:user_start", "mle/family=ExponentiatedWeibull", 0.04, 40),
    ("ll_below_truth:LogNormalNormFit", "mle/family=LogNormalNormFit", 0.30, 40),
]

PARTS = [
    Part("mle", check_mle, strat_mle, quick=1200, thorough=30000, shrink_quick=False, min_nontrivial_frac=0.25),
]
