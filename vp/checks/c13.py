"""C13 - exponentiated-Weibull least squares = weighted quantile regression, any weights."""

import math

import numpy as np
from hypothesis import strategies as st

from vp.runner import Part
from vp.gen import families as fam
from vp import build

ID = "C13"
LEVEL = "exploration"
RULE = (
    "Hypothesis draws a positive sample (30-5000 points from EW / Weibull / log-normal / gamma laws, optionally rounded to create ties and "
    "with appended zeros), a weight specification (None, 'linear'/'quadratic'/'cubic' in any letter case, positive arrays, the same arrays "
    "scaled by 10^k), delta fixed or free, method 'lsq'/'wlsq', and the row order. Oracle: numpy.linalg.lstsq on the sqrt(w)-scaled linearised "
    "quantile relation with plotting positions (i-0.5)/n over the full sorted sample, zeros removed afterwards; invariance under w -> k*w and "
    "under a joint permutation of data and weights; keyword == its array definition; for a free delta local optimality of the x-space weighted "
    "error computed by the harness. Non-trivial: weights not normalised, or zeros present, or shuffled input."
)
ASSUMPTIONS = [
    "with tied observations carrying different array weights, the association of weights to plotting positions is only fixed up to the tie order: 'array' weights are a function of x (unique reference); 'random' weights are unrelated to x and, where ties with different weights occur, only the invariances (joint permutation, weight scaling) are asserted",
    "free delta: fmin's own tolerance (1e-4) bounds how close the result is to the local minimiser; optimality is judged against delta*(1 +- 1e-3)",
    "local optimality of a free delta is only judged where (0.5/n)^(1/delta) >= 1e-10, i.e. where the plotting-position transform is computable in double precision (degenerate samples drive delta towards 0 or towards infinity, delta > 1e5, where no interior minimum exists in the computable region)",
]


def make_sample(case):
    src = case["source"]
    d = build.dist(src["family"], src["params"])
    x = np.asarray(d.draw_sample(case["n"], random_state=case["seed"]), dtype=float)
    if case["round"] is not None:
        x = np.round(x, case["round"])
    if case["zeros"]:
        x = np.concatenate([x, np.zeros(case["zeros"])])
    rng = np.random.default_rng(case["seed"] + 17)
    if case["order"] == "shuffled":
        x = x[rng.permutation(len(x))]
    elif case["order"] == "sorted":
        x = np.sort(x)
    return x


def make_weights(spec, x):
    """returns (argument passed to virocon, reference weight per observation in data order)"""
    if spec is None:
        return None, np.ones_like(x)
    if spec["kind"] == "keyword":
        k = {"linear": 1, "quadratic": 2, "cubic": 3}[spec["name"].lower()]
        return spec["name"], x**k
    if spec["kind"] == "array":
        # a positive function of x (unique under ties) times a scale
        w = (spec["a"] + x ** spec["pow"]) * spec["scale"]
        return w.copy(), w
    if spec["kind"] == "random":
        # weights that belong to the observations and are unrelated to their values
        w = np.random.default_rng(spec["wseed"]).uniform(0.1, 10.0, len(x)) * spec["scale"]
        return w.copy(), w
    raise ValueError(spec)


def reference_alpha_beta(x, w, delta, naive_log=False):
    order = np.argsort(x, kind="stable")
    xs, ws = x[order], w[order]
    n = len(xs)
    p = (np.arange(1, n + 1) - 0.5) / n
    keep = xs != 0
    xs, ws, p = xs[keep], ws[keep], p[keep]
    x_star = np.log10(xs)
    if naive_log:  # the documented expression evaluated literally: log(1 - p^(1/delta))
        with np.errstate(all="ignore"):
            p_star = np.log10(-np.log(1 - p ** (1.0 / delta)))
    else:
        p_star = np.log10(-np.log1p(-(p ** (1.0 / delta))))
    sw = np.sqrt(ws)
    A = np.c_[sw, sw * p_star]
    sol, *_ = np.linalg.lstsq(A, sw * x_star, rcond=None)
    a, b = sol
    return 10.0**a, 1.0 / b


def xspace_error(x, w, delta):
    alpha, beta = reference_alpha_beta(x, w, delta)
    order = np.argsort(x, kind="stable")
    xs, ws = x[order], w[order]
    n = len(xs)
    p = (np.arange(1, n + 1) - 0.5) / n
    keep = xs != 0
    xs, ws, p = xs[keep], ws[keep], p[keep]
    x_hat = alpha * (-np.log1p(-(p ** (1.0 / delta)))) ** (1.0 / beta)
    return float(np.sum(ws / ws.sum() * (xs - x_hat) ** 2))


def rel(a, b):
    return abs(a - b) / max(abs(a), abs(b), 1e-300)


def check_lsq(case, ctx):
    from virocon import ExponentiatedWeibullDistribution as EW

    x = make_sample(case)
    if np.count_nonzero(x) < 10 or len(np.unique(x[x != 0])) < 5:
        return
    warg, wref = make_weights(case["weights"], x)
    wkind = "none" if case["weights"] is None else case["weights"]["kind"] + (":" + case["weights"].get("name", "").lower() if case["weights"]["kind"] == "keyword" else "")
    fixed_delta = case["delta_fixed"]
    ctx.cls(f"weights={wkind}", f"delta={'fixed' if fixed_delta else 'free'}", f"method={case['method']}", f"order={case['order']}", f"zeros={'yes' if case['zeros'] else 'no'}")
    unnormalised = case["weights"] is None or case["weights"]["kind"] in ("array", "random")
    ctx.nontrivial(unnormalised or case["zeros"] > 0 or case["order"] != "sorted")

    def fit(data, weights):
        d = EW(f_delta=case["delta"]) if fixed_delta else EW(delta=case["delta"])
        d.fit(data, method=case["method"], weights=weights)
        return d

    ok, d = ctx.call(f"fit:{wkind}", fit, x, None if warg is None else (warg.copy() if isinstance(warg, np.ndarray) else warg))
    if not ok:
        return
    alpha, beta, delta = float(d.alpha), float(d.beta), float(d.delta)
    tag = f"n={len(x)} weights={case['weights']} delta={'fixed ' if fixed_delta else 'start '}{case['delta']!r} order={case['order']} zeros={case['zeros']} source={case['source']['family']}"
    if fixed_delta and delta != case["delta"]:
        ctx.violation("fixed_delta_changed", f"{tag}: delta={delta!r}")
        return
    if not (math.isfinite(alpha) and math.isfinite(beta) and math.isfinite(delta) and delta > 0):
        ctx.violation(f"nonfinite:{wkind}", f"{tag}: alpha={alpha!r} beta={beta!r} delta={delta!r}")
        return
    # tied observations with different weights: which weight meets which plotting position is not fixed by the
    # property (any deterministic rule is a valid regression) - only the invariances below apply there
    xs_, ws_ = x[np.argsort(x, kind="stable")], wref[np.argsort(x, kind="stable")]
    tie = (np.diff(xs_) == 0) & (np.diff(ws_) != 0) & (xs_[1:] != 0)
    ambiguous_ties = bool(tie.any())
    if ambiguous_ties:
        ctx.cls("ties_with_different_weights")
    ra, rb = reference_alpha_beta(x, wref, delta)
    bad = (rel(alpha, ra) > 1e-8 or rel(beta, rb) > 1e-8) and not ambiguous_ties
    if bad:
        # for very small delta, p^(1/delta) approaches the rounding unit and log(1-q) vs log1p(-q)
        # differ; both are faithful evaluations of the documented relation
        try:
            na, nb = reference_alpha_beta(x, wref, delta, naive_log=True)
            bad = not (rel(alpha, na) <= 1e-8 and rel(beta, nb) <= 1e-8)
        except Exception:  # noqa: BLE001
            pass
    if bad:
        ctx.violation(
            f"regression:{wkind}:{'fixed' if fixed_delta else 'free'}",
            f"{tag}: virocon alpha={alpha!r} beta={beta!r}; weighted regression at delta={delta!r} gives alpha={ra!r} beta={rb!r}",
        )
        return
    # free delta: local minimiser of the x-space weighted error
    n_all = len(x)
    # ... and the other end: fmin may run off to delta -> infinity (the Gumbel-type limit), where 1 - p^(1/delta) ~ 1/delta
    # is only known to a relative precision eps*delta
    at_float_limit = (0.5 / n_all) ** (1.0 / delta) < 1e-10 or delta > 1e5
    if not fixed_delta and at_float_limit:
        # the smallest plotting position to the power 1/delta is at the rounding unit: the quantile
        # transform is no longer computable, no interior minimum exists in the computable region
        ctx.cls("delta_at_float_limit")
    if not fixed_delta and not at_float_limit and not ambiguous_ties:
        e0 = xspace_error(x, wref, delta)
        for f in (1 - 1e-3, 1 + 1e-3):
            e1 = xspace_error(x, wref, delta * f)
            if not e0 <= e1 * (1 + 1e-7) + 1e-300:
                ctx.violation(f"delta_not_local_min:{wkind}", f"{tag}: E(delta={delta!r})={e0!r} > E({delta * f!r})={e1!r}")
                break

    # metamorphic relations ---------------------------------------------------------
    def same(d2, what, rtol):
        if not fixed_delta:
            # fmin stops on an *absolute* xtol of 1e-4 in delta: for delta ~ 0.02 that is 0.5 % of delta, and alpha, beta
            # (closed form at the delta in force) move proportionally
            d_tol = max(rtol * abs(delta), 3e-4)
            ab_tol = rtol * max(1.0, d_tol / max(rtol * abs(delta), 1e-300))
            if abs(float(d2.delta) - delta) > d_tol or rel(float(d2.alpha), alpha) > ab_tol or rel(float(d2.beta), beta) > ab_tol:
                ctx.violation(f"{what}:{wkind}", f"{tag}: ({alpha!r},{beta!r},{delta!r}) vs ({float(d2.alpha)!r},{float(d2.beta)!r},{float(d2.delta)!r})")
            return
        if rel(float(d2.alpha), alpha) > rtol or rel(float(d2.beta), beta) > rtol or rel(float(d2.delta), delta) > max(rtol, 0 if fixed_delta else 2e-3):
            ctx.violation(f"{what}:{wkind}", f"{tag}: ({alpha!r},{beta!r},{delta!r}) vs ({float(d2.alpha)!r},{float(d2.beta)!r},{float(d2.delta)!r})")

    tol_meta = 1e-9 if fixed_delta else 5e-3  # a free delta is only determined to fmin's tolerance
    perm = np.random.default_rng(case["seed"] + 5).permutation(len(x))
    wp = None if warg is None else (warg[perm].copy() if isinstance(warg, np.ndarray) else warg)
    ok, d2 = ctx.call(f"fit_permuted:{wkind}", fit, x[perm].copy(), wp)
    if ok:
        same(d2, "order_dependent", tol_meta)
    if isinstance(warg, np.ndarray):
        ok, d3 = ctx.call("fit_scaled_weights", fit, x, warg * case["rescale"])
        if ok:
            same(d3, "weight_scale_dependent", tol_meta)
    if case["weights"] is not None and case["weights"]["kind"] == "keyword":
        k = {"linear": 1, "quadratic": 2, "cubic": 3}[case["weights"]["name"].lower()]
        ok, d4 = ctx.call("fit_keyword_as_array", fit, x, (x**k) * case["rescale"])
        if ok:
            same(d4, "keyword_vs_array", tol_meta)
    if case["weights"] is None:
        ok, d5 = ctx.call("fit_ones", fit, x, np.full(len(x), case["rescale"]))
        if ok:
            same(d5, "none_vs_constant_weights", tol_meta)


def strat_lsq(tier):
    big = 5000 if tier == "thorough" else 1500

    @st.composite
    def s(draw):
        src_family = draw(st.sampled_from(["ExponentiatedWeibull", "Weibull", "LogNormal", "ScipyGamma"]))
        if src_family == "Weibull":
            params = dict(alpha=draw(fam.logu(0.3, 12)), beta=draw(fam.logu(0.7, 4)), gamma=0.0)
        else:
            params = draw(fam.PLAUSIBLE[src_family]())
        wkind = draw(st.sampled_from(["none", "keyword", "keyword", "array", "array", "random"]))
        if wkind == "none":
            weights = None
        elif wkind == "keyword":
            name = draw(st.sampled_from(["linear", "quadratic", "cubic", "Linear", "QUADRATIC", "Cubic"]))
            weights = dict(kind="keyword", name=name)
        elif wkind == "random":
            weights = dict(kind="random", wseed=draw(st.integers(0, 2**31 - 1)), scale=draw(st.sampled_from([1.0, 1e-3, 100.0])))
        else:
            weights = dict(kind="array", a=draw(st.floats(0.01, 2.0)), pow=draw(st.sampled_from([0.0, 0.5, 1.0, 2.0, 3.0])), scale=draw(st.sampled_from([1.0, 1e-3, 10.0, 1e4])))
        return dict(
            source=dict(family=src_family, params=params),
            n=draw(st.one_of(st.integers(30, 200), st.integers(30, big))),
            seed=draw(st.integers(0, 2**31 - 100)),
            round=draw(st.sampled_from([None, None, 2, 1])),
            zeros=draw(st.sampled_from([0, 0, 1, 5])),
            order=draw(st.sampled_from(["shuffled", "sorted", "asdrawn"])),
            weights=weights,
            delta_fixed=draw(st.booleans()),
            delta=draw(fam.logu(0.5, 10)),
            method=draw(st.sampled_from(["lsq", "wlsq"])),
            rescale=draw(st.sampled_from([0.01, 7.0, 1e3])),
        )

    return s()


PARTS = [
    Part("lsq", check_lsq, strat_lsq, quick=2500, thorough=60000, min_nontrivial_frac=0.3),
]
