"""C14 - dependence functions are fitted within bounds, optimally, in dependency order."""

import itertools
import math

import numpy as np
from hypothesis import strategies as st

from vp.runner import Part
from vp.gen import depshapes, families as fam

ID = "C14"
LEVEL = "exploration"
RULE = (
    "Part fit: Hypothesis draws a shape (predefined-model shapes plus linear/polynomial), generating coefficients, 3-20 support points with "
    "noise, bounds (none / one-sided / two-sided / active at the unconstrained optimum: lower, upper, or exactly 0 with the other side open), inequality constraints (dict or list, active or "
    "inactive), an optional weights callable and start values. Oracle: bounds and constraints hold, J(fitted) <= J(start) and <= J at 64 "
    "admissible perturbations (relative 1e-4..1e-1) for the harness' own (weighted) squared residual, linear shapes equal numpy lstsq. "
    "Part order: chains of 2-3 dependence functions (a function taking other functions as parameters), declared in any order and fitted "
    "once per round in any order for 1-3 rounds with new data each round (the history ConditionalDistribution.fit produces for any dict order); "
    "final parameters must equal fresh copies put through the same rounds in dependency order. Non-trivial: noise > 0 and the fit moved away "
    "from the start; for histories a call order different from the dependency order."
)
ASSUMPTIONS = [
    "objective tolerance 1e-4*J + 1e-8*|y|^2: curve_fit terminates on an absolute gradient tolerance (1e-8) and its bounded solver (TRF) keeps iterates ~1e-6 inside active bounds; a semantic error changes J by O(1); perturbation optimality is a necessary condition, not global optimality",
    "a RuntimeError 'Failed to fit dependence function ... Consider choosing different bounds' is the documented refusal of curve_fit failures (counted as rejected_by_contract)",
    "constraints together with weights raise the documented NotImplementedError (counted as rejected_by_contract)",
    "weighted fits: optimality is accepted for J_k = sum w^k r^2 with k = 1 or 2 (both readings of 'weight the observations with y_i'); inverse weighting is the recorded known finding KF-C14-1",
]

SHAPES = ["power3", "exp3", "asymdecrease3", "logistics4", "linear2", "poly3", "lnsquare2", "limited_growth2", "const1"]


def make_dep(spec):
    from virocon import DependenceFunction

    fn = depshapes.python_callable(spec["shape"])
    kw = {}
    if spec.get("bounds") is not None:
        kw["bounds"] = [tuple(b) for b in spec["bounds"]]
    if spec.get("constraints") is not None:
        kw["constraints"] = build_constraints(spec["constraints"])
    if spec.get("weights"):
        kw["weights"] = depshapes.weight_callable(spec["weights"])
    for par, sub in (spec.get("chain_objs") or {}).items():
        kw[par] = sub
    d = DependenceFunction(fn, **kw)
    if spec.get("p0") is not None:
        d.parameters = dict(zip(d.parameters.keys(), [float(v) for v in spec["p0"]]))
    return d


def build_constraints(cspec):
    """cspec: {"form": "dict"|"list", "items": [{"coef": [...], "rhs": r}]}  meaning  sum coef_i p_i - rhs >= 0"""
    items = []
    for it in cspec["items"]:
        coef = np.asarray(it["coef"], dtype=float)
        rhs = float(it["rhs"])
        items.append({"type": "ineq", "fun": (lambda p, c=coef, r=rhs: float(np.dot(c, np.asarray(p)[: len(c)]) - r))})
    if cspec["form"] == "dict" and len(items) == 1:
        return items[0]
    return items


def constraint_values(cspec, p):
    return np.array([float(np.dot(np.asarray(it["coef"], dtype=float), np.asarray(p)[: len(it["coef"])]) - it["rhs"]) for it in cspec["items"]])


def shape_fn(shape):
    return depshapes.SHAPES[shape][0]


def J(shape, p, x, y, w=None, k=1):
    with np.errstate(all="ignore"):
        r = shape_fn(shape)(x, *p) - y
        if w is None:
            return float(np.sum(r * r))
        return float(np.sum((w**k) * r * r))


def data_for(spec):
    rng = np.random.default_rng(spec["seed"])
    x = np.sort(np.asarray(spec["x"], dtype=float))
    y0 = shape_fn(spec["shape"])(x, *spec["truth"])
    y = y0 + spec["noise"] * np.std(y0 if np.std(y0) > 0 else np.ones_like(y0)) * rng.standard_normal(len(x)) if spec["noise"] > 0 else y0
    return x, np.asarray(y, dtype=float)


def check_fit(case, ctx):
    shape = case["shape"]
    x, y = data_for(case)
    if not np.all(np.isfinite(y)):
        return
    n_par = depshapes.n_coef(shape)
    bounds = case.get("bounds")
    cons = case.get("constraints")
    wname = case.get("weights")
    ctx.cls(f"shape={shape}", f"bounds={case['bounds_kind']}", f"constraints={'none' if cons is None else cons['kind']}", f"weights={wname or 'none'}", f"p0={case['p0_kind']}")
    d = make_dep(case)
    p0 = np.array(list(d.parameters.values()), dtype=float)
    w = None
    if wname:
        w = np.asarray(depshapes.weight_callable(wname)(x, y), dtype=float)
        if np.any(w <= 0) or not np.all(np.isfinite(w)):
            return
    try:
        d.fit(x, y)
    except NotImplementedError:
        if cons is not None and wname:
            ctx.rejected_by_contract()
            return
        ctx.violation(f"raises:NotImplementedError:{shape}", "fit raised NotImplementedError without constraints+weights")
        return
    except RuntimeError as e:
        if "Failed to fit dependence function" in str(e) or "Error during fitting" in str(e):
            ctx.rejected_by_contract()
            return
        ctx.violation(f"raises:RuntimeError:{shape}", str(e)[:200])
        return
    except Exception as e:  # noqa: BLE001
        ctx.violation(f"raises:{type(e).__name__}:{'constrained' if cons is not None else 'bounded' if bounds else 'plain'}", f"shape={shape} bounds={bounds} p0={p0.tolist()}: {str(e)[:200]}")
        return
    ph = np.array(list(d.parameters.values()), dtype=float)
    names = list(d.parameters.keys())
    tag = f"shape={shape} x={x.tolist()} y={np.round(y, 6).tolist()} p0={p0.tolist()} bounds={bounds} constraints={cons} weights={wname} fitted={dict(zip(names, ph.tolist()))}"
    if len(ph) != n_par or not np.all(np.isfinite(ph)):
        ctx.violation(f"nonfinite:{shape}", tag)
        return
    ctx.nontrivial(case["noise"] > 0 and not np.allclose(ph, p0))
    # bounds
    lo = np.array([(-np.inf if b[0] is None else b[0]) for b in bounds], dtype=float) if bounds else np.full(n_par, -np.inf)
    hi = np.array([(np.inf if b[1] is None else b[1]) for b in bounds], dtype=float) if bounds else np.full(n_par, np.inf)
    if np.any(ph < lo - 1e-10) or np.any(ph > hi + 1e-10):
        ctx.violation("bounds_violated" + (":constrained" if cons is not None else ""), tag)
        return
    if cons is not None:
        cv = constraint_values(cons, ph)
        if np.any(cv < -1e-6):  # SLSQP accepts a point whose summed constraint violation is below its accuracy 1e-6
            ctx.violation(f"constraint_violated:{cons['kind']}", f"{tag}: constraint values {cv.tolist()} (must be >= 0)")
            return
    # objective(s)
    scale = float(np.sum(y * y)) + 1e-300

    def admissible(p):
        if np.any(p < lo) or np.any(p > hi):
            return False
        if cons is not None and np.any(constraint_values(cons, p) < 0):
            return False
        return True

    def is_optimal(k):
        Jh = J(shape, ph, x, y, w, k)
        if not math.isfinite(Jh):
            return False, "J(fitted) not finite"
        sc = scale if w is None else float(np.sum((w**k) * y * y)) + 1e-300
        tau = 1e-4 * Jh + 1e-8 * sc
        # a parameter sitting (almost) on a finite bound: scipy's bounded curve_fit (TRF) keeps its iterates strictly
        # inside the box, approaches an active bound only linearly and stops by ftol a relative 1e-4..1e-3 short of it
        pscale = np.maximum(np.maximum(np.abs(p0), np.abs(ph)), float(np.max(np.abs(ph))))
        near = (np.isfinite(lo) & (np.abs(ph - lo) <= 1e-3 * pscale)) | (np.isfinite(hi) & (np.abs(hi - ph) <= 1e-3 * pscale))
        if cons is None and bool(np.any(near)):
            tau = 1e-2 * Jh + 1e-7 * sc
        if cons is not None:
            # SLSQP stops as soon as one iteration improves the objective by less than 1e-6 (default ftol,
            # absolute), which leaves it percent-level short on shallow valleys
            tau += 5e-5 + 0.02 * Jh
        if admissible(p0):
            J0 = J(shape, p0, x, y, w, k)
            if math.isfinite(J0) and Jh > J0 + tau:
                return False, f"J(fitted)={Jh!r} > J(start)={J0!r}"
        if cons is not None and case["p0_kind"] == "default" and shape not in depshapes.LINEAR_IN_PARAMS:
            # SLSQP (absolute ftol 1e-6) started far away on a non-convex shape creeps along valleys and
            # stops early: only the comparison with the start is meaningful there
            return True, ""
        rng = np.random.default_rng(case["seed"] + 99)
        for i in range(64):
            # "nearby": up to 10 % for shapes linear in their parameters (convex objective: any better admissible
            # point disproves optimality), up to 1 % otherwise (a steep logistic / exponential objective is
            # piecewise flat in its location parameter: a 10 % move jumps over a support point into another basin,
            # which a local optimiser is not claimed to find)
            rel = 10.0 ** rng.uniform(-4, -1 if shape in depshapes.LINEAR_IN_PARAMS else -2)
            delta = rel * rng.standard_normal(n_par) * np.maximum(np.abs(ph), 1e-3)
            if i % 4 == 0:  # single-coordinate moves
                m = np.zeros(n_par)
                m[rng.integers(n_par)] = 1
                delta = delta * m
            q = np.clip(ph + delta, lo, hi)
            if not admissible(q):
                continue
            Jq = J(shape, q, x, y, w, k)
            if math.isfinite(Jq) and Jh > Jq + tau:
                return False, f"J(fitted)={Jh!r} > J(perturbed {q.tolist()})={Jq!r}"
        return True, ""

    if w is None:
        ok, why = is_optimal(1)
        if not ok:
            kind = "constrained" if cons is not None else ("bounded" if bounds else "plain")
            if cons is not None:
                kind += ":returned_start" if np.array_equal(ph, p0) else ":stalled"
            ctx.violation("not_optimal:" + kind, f"{tag}: {why}")
            return
    else:
        ok1, why1 = is_optimal(1)
        ok2, why2 = is_optimal(2)
        if not (ok1 or ok2):
            okm, _ = is_optimal(-2)
            if okm:
                ctx.violation("weights_inverse", f"{tag}: the fit minimises sum (r_i / w_i)^2, i.e. observations with LARGER weight have LESS influence; {why1}")
            else:
                ctx.violation("weighted_not_optimal", f"{tag}: {why1}; {why2}")
            return
    # linear shapes with inactive bounds, no constraints: the unique least-squares solution
    if shape in depshapes.LINEAR_IN_PARAMS and cons is None and w is None:
        cols = {"linear2": [np.ones_like(x), x], "poly3": [np.ones_like(x), x, x**2], "const1": [np.ones_like(x)]}[shape]
        A = np.stack(cols, axis=1)
        if len(x) > A.shape[1] and np.linalg.matrix_rank(A) == A.shape[1]:
            sol, *_ = np.linalg.lstsq(A, y, rcond=None)
            if np.all(sol > lo + 1e-6) and np.all(sol < hi - 1e-6):
                # judged through the objective (curve_fit terminates on an absolute gradient tolerance; the
                # parameters of an ill-conditioned design are only determined to that accuracy)
                Js, Jh = J(shape, sol, x, y), J(shape, ph, x, y)
                if Jh > Js + 1e-4 * Js + 1e-8 * scale:
                    ctx.violation(f"linear_lsq:{shape}", f"{tag}: J(fitted)={Jh!r} but the linear least-squares solution {sol.tolist()} has J={Js!r}")
                elif (
                    np.linalg.cond(A) < 1e3
                    # (a solution within 1e-3 of a finite bound: TRF's strictly interior iterates stop that far short,
                    # see is_optimal; the objective comparison above still applies)
                    and np.all(sol > lo + 1e-3 * max(1.0, np.abs(sol).max()))
                    and np.all(sol < hi - 1e-3 * max(1.0, np.abs(sol).max()))
                    and not np.allclose(ph, sol, rtol=1e-3, atol=1e-4 * max(1.0, np.abs(sol).max()))
                ):
                    ctx.violation(f"linear_lsq_params:{shape}", f"{tag}: lstsq solution {sol.tolist()}")


@st.composite
def strat_fit(draw, tier):
    from vp.gen import models

    shape = draw(st.sampled_from(SHAPES))
    n_par = depshapes.n_coef(shape)
    x1 = draw(st.floats(2.0, 20.0))
    # generating coefficients through the constructive solver (positive parameter targets)
    v0 = draw(fam.logu(0.1, 5))
    v1 = draw(fam.logu(0.1, 5))
    k = draw(st.floats(0, 1))
    if shape == "limited_growth2":
        truth = [draw(fam.logu(0.05, 3)), draw(fam.logu(0.1, 2))]
    elif shape == "const1":
        truth = [v0]
    elif shape == "lnsquare2":
        truth = [math.exp(min(v0, 2.0)), draw(fam.logu(0.1, 5))]
    elif shape == "asymdecrease3" and v1 == v0:
        truth = [v0, 0.0, 1.0]
    else:
        if v1 == v0:
            v1 = v0 * 1.5
        if shape == "asymdecrease3" and v1 > v0:
            v0, v1 = v1, v0
        _, truth = models.solve_shape(shape, v0, v1, 0.0, x1, k, 0.05, False)
    truth = [float(t) for t in truth]
    n = draw(st.integers(max(3, n_par + 1), 20))
    xs = draw(st.lists(st.floats(0.05, 1.0), min_size=n, max_size=n, unique=True))
    x = sorted(float(round(u * x1, 6)) for u in xs)
    noise = draw(st.sampled_from([0.0, 0.01, 0.05, 0.2]))
    p0_kind = draw(st.sampled_from(["default", "near", "near", "truth"]))
    if p0_kind == "default":
        p0 = None
    elif p0_kind == "truth":
        p0 = [t if abs(t) > 1e-6 else 0.0 for t in truth]
    else:
        # (a start value of ~0 freezes MINPACK's relative finite-difference step: not a realistic user start)
        p0 = [t * (1 + draw(st.floats(-0.3, 0.3))) if abs(t) > 1e-6 else 0.1 for t in truth]
    bounds_kind = draw(st.sampled_from(["none", "one_sided", "two_sided", "active", "active_upper", "active_zero"]))
    bounds = None
    start = p0 if p0 is not None else [1.0] * n_par
    if bounds_kind in ("active_upper", "active_zero"):
        # an upper bound that is active at the optimum; 'active_zero': the active bound is exactly 0 (a falsy value;
        # seeded change C14e `upper or np.inf`), on whichever side excludes the true value, the other side open (None).
        # Only where the shape is defined on that side (e.g. not for the argument of a logarithm): else the classic form.
        j = draw(st.integers(0, n_par - 1))
        b_new = [(None, None)] * n_par
        s_new = list(start)
        if bounds_kind == "active_zero" and truth[j] > 1e-6:
            b_new[j] = (None, 0)
            s_new[j] = -0.5 * abs(truth[j]) - 0.5
            edge = 0.0
        elif bounds_kind == "active_zero" and truth[j] < -1e-6:
            b_new[j] = (0, None)
            s_new[j] = 0.5 * abs(truth[j]) + 0.5
            edge = 0.0
        else:
            cut = truth[j] - 0.2 * abs(truth[j]) - 0.05
            b_new[j] = (cut - 10 * abs(cut) - 10.0, cut)
            s_new[j] = cut - 0.5 * abs(cut) - 0.5
            edge = cut
        at_edge = list(s_new)
        at_edge[j] = edge
        f = getattr(depshapes, shape)
        with np.errstate(all="ignore"):
            defined = all(np.all(np.isfinite(np.asarray(f(np.asarray(x, dtype=float), *q), dtype=float))) for q in (s_new, at_edge))
        if defined:
            bounds, start, p0, p0_kind = b_new, s_new, s_new, "inside_active_bounds"
        else:
            bounds_kind = "active"
    if bounds_kind == "one_sided":
        bounds = [(min(0.0, t - abs(t), s - abs(s)), None) if i % 2 == 0 else (None, max(t, s) + abs(t) + abs(s) + 1.0) for i, (t, s) in enumerate(zip(truth, start))]
    elif bounds_kind == "two_sided":
        bounds = [(min(t, s) - 2 * abs(t) - abs(s) - 1.0, max(t, s) + 2 * abs(t) + abs(s) + 1.0) for t, s in zip(truth, start)]
    elif bounds_kind == "active":
        # first parameter must stay above truth + 20 %: the bound is active at the optimum
        j = draw(st.integers(0, n_par - 1))
        bounds = [(None, None)] * n_par
        cut = truth[j] + 0.2 * abs(truth[j]) + 0.05
        bounds = [tuple(b) for b in bounds]
        bounds[j] = (cut, cut + 10 * abs(cut) + 10.0)
        start = list(start)
        start[j] = cut + 0.5 * abs(cut) + 0.5
        p0 = start
        p0_kind = "inside_active_bounds"
    constraints = None
    ckind = draw(st.sampled_from(["none", "none", "none", "inactive", "active"]))
    if ckind != "none" and n_par >= 2:
        # linear inequality  s*(p_j) - rhs >= 0
        j = draw(st.integers(0, n_par - 1))
        coef = [0.0] * n_par
        if ckind == "inactive":
            coef[j] = 1.0
            rhs = min(truth[j], start[j]) - 5 * abs(truth[j]) - 5.0
        else:
            coef[j] = 1.0
            rhs = truth[j] + 0.2 * abs(truth[j]) + 0.05  # excludes the unconstrained optimum
            start = list(start)
            start[j] = rhs + 0.5 * abs(rhs) + 0.5
            p0 = start
            p0_kind = "inside_active_constraint"
        constraints = dict(kind=ckind, form=draw(st.sampled_from(["dict", "list"])), items=[dict(coef=coef, rhs=float(rhs))])
        if bounds is None:
            bounds = [(None, None)] * n_par
    weights = draw(st.sampled_from([None, None, None, "y", "y2", "x"]))
    if weights in ("y", "y2") and shape in ("lnsquare2",):
        weights = "x"  # y may be negative for a logarithm
    return dict(
        shape=shape, truth=truth, x=x, noise=noise, seed=draw(st.integers(0, 2**31 - 200)), p0=p0, p0_kind=p0_kind,
        bounds=[list(b) for b in bounds] if bounds is not None else None, bounds_kind=bounds_kind, constraints=constraints, weights=weights,
    )


# ---------------------------------------------------------------------------- part order
def chain_objects(case, order):
    """build the chain's DependenceFunction objects declaring them in `order` where possible
    (a function can only be declared after the functions it takes as parameters)."""
    specs = case["funcs"]
    objs = {}
    remaining = list(order)
    while remaining:
        progressed = False
        for i in list(remaining):
            deps = specs[i].get("uses", {})
            if all(j in objs for j in deps.values()):
                sp = dict(specs[i])
                sp["chain_objs"] = {par: objs[j] for par, j in deps.items()}
                objs[i] = make_dep(sp)
                remaining.remove(i)
                progressed = True
                break
        if not progressed:
            raise ValueError("cyclic chain")
    return objs


def chain_eval(case, params, i, x):
    sp = case["funcs"][i]
    fn = shape_fn(sp["shape"])
    if sp.get("uses"):
        (par, j), = sp["uses"].items()
        return fn(x, *params[i], lambda t: chain_eval(case, params, j, t))
    return fn(x, *params[i])


def dependency_order(case):
    n = len(case["funcs"])
    done, out = set(), []
    while len(out) < n:
        for i in range(n):
            if i in done:
                continue
            if all(j in done for j in case["funcs"][i].get("uses", {}).values()):
                out.append(i)
                done.add(i)
    return out


def check_order(case, ctx):
    n = len(case["funcs"])
    dep_order = dependency_order(case)
    rounds = case["rounds"]
    ctx.cls(f"chain_len={n}", f"rounds={len(rounds)}", "shape2=" + case["funcs"][-1]["shape"])
    nontrivial = any(r["order"] != dep_order for r in rounds)
    ctx.nontrivial(nontrivial)

    def run(decl_order, call_orders):
        objs = chain_objects(case, decl_order)
        for r, co in zip(rounds, call_orders):
            for i in co:
                x = np.asarray(r["x"], dtype=float)
                y = np.asarray(r["y"][i], dtype=float)
                objs[i].fit(x, y)
        return {i: np.array(list(objs[i].parameters.values()), dtype=float) for i in objs}

    try:
        ref = run(dep_order, [dep_order] * len(rounds))
    except Exception as e:  # noqa: BLE001
        ctx.rejected_by_contract()
        ctx.note(f"reference (dependency order) fit failed: {type(e).__name__}")
        return
    try:
        got = run(case["decl_order"], [r["order"] for r in rounds])
    except RuntimeError as e:
        if "Failed to fit dependence function" in str(e):
            ctx.rejected_by_contract()  # documented refusal of a curve_fit failure
            return
        ctx.violation("order_raises:RuntimeError", f"decl={case['decl_order']} calls={[r['order'] for r in rounds]}: {str(e)[:200]}")
        return
    except Exception as e:  # noqa: BLE001
        ctx.violation(f"order_raises:{type(e).__name__}", f"decl={case['decl_order']} calls={[r['order'] for r in rounds]}: {str(e)[:200]}")
        return
    last = rounds[-1]
    x = np.asarray(last["x"], dtype=float)
    for i in range(n):
        if np.allclose(got[i], ref[i], rtol=1e-5, atol=1e-8):
            continue
        # objective-equality fallback (flat directions)
        y = np.asarray(last["y"][i], dtype=float)
        with np.errstate(all="ignore"):
            Jg = float(np.sum((chain_eval(case, got, i, x) - y) ** 2))
            Jr = float(np.sum((chain_eval(case, ref, i, x) - y) ** 2))
        if math.isfinite(Jg) and abs(Jg - Jr) <= 1e-4 * max(Jr, 1e-12) + 1e-8 * float(np.sum(y * y)):
            continue
        # is the function at least a least-squares fit of the final data given the final state of the functions it
        # depends on (another local optimum), or is it not a fit of the final state at all (stale data / stale conditioner)?
        rngp = np.random.default_rng(12345)
        better = False
        for _ in range(48):
            q = dict(got)
            q[i] = got[i] * (1 + (10.0 ** rngp.uniform(-3, -1)) * rngp.standard_normal(len(got[i])))
            with np.errstate(all="ignore"):
                Jq = float(np.sum((chain_eval(case, q, i, x) - y) ** 2))
            if math.isfinite(Jq) and Jq < Jg * (1 - 0.02) - 1e-8 * float(np.sum(y * y)):
                better = True
                break
        degenerate = not (Jg <= 1e3 * float(np.sum(y * y)) and Jr <= 1e3 * float(np.sum(y * y)))  # both runs diverged (e.g. x^-280)
        kind = "not_a_fit_of_the_final_state" if (better and not degenerate) else "other_local_optimum"
        ctx.violation(
            f"order_dependent:{'first_fit' if len(rounds) == 1 else 'refit'}:{kind}:chain{n}",
            f"function {i} ({case['funcs'][i]['shape']}): parameters {got[i].tolist()} (J={Jg!r}) with declaration order {case['decl_order']} and call orders "
            f"{[r['order'] for r in rounds]}, but {ref[i].tolist()} (J={Jr!r}) when fitted in dependency order {dep_order}",
        )
        return


@st.composite
def strat_order(draw, tier):
    n = draw(st.sampled_from([2, 2, 3]))
    x1 = draw(st.floats(3.0, 15.0))
    base_shape = draw(st.sampled_from(["linear2", "poly3", "logistics4", "power3"]))
    # base function: positive values (it is used as d_of_x)
    from vp.gen import models

    v0 = draw(fam.logu(0.8, 3))
    # the base function must vary over the support: a nearly constant d_of_x makes the dependent
    # function's parameters unidentifiable (collinear columns)
    v1 = v0 * draw(st.sampled_from([1.6, 2.0, 2.5, 1 / 1.6, 1 / 2.0, 1 / 2.5]))
    if base_shape in ("power3",) and v1 < v0:
        v0, v1 = v1, v0
    _, t0 = models.solve_shape(base_shape, v0, v1, 0.0, x1, draw(st.floats(0, 1)), 0.05, False)
    funcs = [dict(shape=base_shape, truth=[float(t) for t in t0], p0=[float(t * (1 + draw(st.floats(-0.2, 0.2)))) for t in t0], uses={})]
    for lvl in range(1, n):
        sh = draw(st.sampled_from(["ratio3", "alpha3"]))
        uses_idx = draw(st.integers(0, lvl - 1))
        if sh == "ratio3":
            t = [draw(st.floats(0.2, 3)), draw(st.floats(0.3, 2))]
        else:
            t = [draw(st.floats(0.5, 3)), draw(st.floats(0.1, 1.5)), draw(st.floats(0.5, 1.6))]
        funcs.append(dict(shape=sh, truth=[float(v) for v in t], p0=[float(v * (1 + draw(st.floats(-0.2, 0.2)))) for v in t], uses={"d_of_x": uses_idx}))
    n_rounds = draw(st.integers(1, 3))
    rounds = []
    npts = draw(st.integers(5, 12))
    for r in range(n_rounds):
        seed = draw(st.integers(0, 2**31 - 10))
        rng = np.random.default_rng(seed)
        x = np.sort(rng.uniform(0.3, x1, npts))
        truth_params = {i: np.array(f["truth"]) * (1 + 0.1 * r) for i, f in enumerate(funcs)}
        ys = []
        for i in range(n):
            y = chain_eval(dict(funcs=funcs), truth_params, i, x)
            y = y * (1 + 0.03 * rng.standard_normal(npts))
            ys.append([float(v) for v in y])
        rounds.append(dict(x=[float(v) for v in x], y=ys, order=list(draw(st.permutations(list(range(n)))))))
    return dict(funcs=funcs, decl_order=list(draw(st.permutations(list(range(n))))), rounds=rounds)


RATE_LIMITS = [
    ("order_dependent:refit:other_local_optimum", "order/rounds=2", 0.03, 60),
    ("not_optimal:constrained", "fit/constraints=active", 0.04, 60),
]

PARTS = [
    Part("fit", check_fit, lambda tier: strat_fit(tier), quick=2500, thorough=60000, min_nontrivial_frac=0.15),
    Part("order", check_order, lambda tier: strat_order(tier), quick=400, thorough=10000, min_nontrivial_frac=0.2),
]
