"""C15 - HDC coordinates are exactly the boundary cells of the enclosed region."""

import numpy as np
from hypothesis import strategies as st

from vp.runner import Part
from vp.checks import hdc_common as H
from vp.oracles import hdr

ID = "C15"
LEVEL = "exploration"
RULE = (
    "Part hdc: same generator as C02 (2-D / 3-D models, alpha in [1e-6, 0.3], explicit and default limits, scalar / per-dimension / anisotropic "
    "deltas with ratios up to 10). The enclosed region is reconstructed from fm and the grid with harness cell probabilities; its boundary "
    "cells (3^n - 1 neighbourhood, grid border counts as outside) are computed with shifted padded views; the returned coordinates must be "
    "exactly those cell centres, each once; a single 2-D component must come in the order sort_points_to_form_continuous_line gives for the "
    "row-major boundary arrays; several components must be the connected components. Part sorter: arbitrary planar point sets (regular polygons, "
    "ellipses with aspect up to 20, lattice rings, clustered / random clouds, 3-400 points), both search_for_optimal_start values: the output "
    "must be a permutation of the input. Non-trivial: >= 12 boundary cells / >= 8 points not all on one regular ring."
)
ASSUMPTIONS = [
    "cases whose threshold density is shared by several cells that cannot all be enclosed (exact ties) are skipped for the boundary comparison and counted",
    "regions with holes: only the union of the returned coordinate sets is asserted",
]


def as_point_set(coords, n_dim):
    """list of rows (tuples) from either an (N,n) array or a list of per-region coordinate lists"""
    if isinstance(coords, np.ndarray) and coords.dtype != object and coords.ndim == 2:
        return [coords], "single"
    parts = []
    for part in coords:
        arr = np.array([np.asarray(a, dtype=float) for a in part]).T
        parts.append(arr)
    return parts, "multi"


def check_hdc(case, ctx):
    for c in H.classes(case):
        ctx.cls(c)
    run = H.HDCRun(case, ctx)
    if not run.ok:
        return
    cands = run.region_candidates()
    if cands is None:
        ctx.cls("skipped:many_tied_cells")
        return
    n = run.n
    aniso = max(run.deltas) / min(run.deltas) > 1.5
    ctx.cls("anisotropic" if aniso else "isotropic")
    if len(cands) > 1:
        ctx.cls("threshold_ties")
    coords = run.contour.coordinates
    parts, kind = as_point_set(coords, n)
    got = np.concatenate(parts, axis=0) if parts else np.zeros((0, n))

    def key(a):
        return sorted(map(tuple, np.round(a, 12).tolist()))

    first = None
    match = None
    for R in cands:
        B = hdr.boundary_mask(R)
        idx = np.argwhere(B)
        expected = np.stack([run.centers[k][idx[:, k]] for k in range(n)], axis=1) if len(idx) else np.zeros((0, n))
        if first is None:
            first = (R, B, idx, expected)
        if got.ndim == 2 and got.shape[1] == n and key(got) == key(expected):
            match = (R, B, idx, expected)
            break
    R, B, idx, expected = match or first
    ctx.nontrivial(len(idx) >= 12)
    tag = f"alpha={run.alpha!r} limits={case['limits']} deltas={case['deltas']} grid={list(R.shape)} region_cells={int(R.sum())} boundary_cells={len(idx)}"
    if got.ndim != 2 or got.shape[1] != n:
        ctx.violation("coordinates:shape", f"{tag}: coordinates shape {got.shape}")
        return
    kg, ke = key(got), key(expected)
    if match is None:
        sg, se = set(kg), set(ke)
        missing = len(se - sg)
        extra = len(sg - se)
        dup = len(kg) - len(sg)
        what = "lost" if missing and not extra else ("extra" if extra and not missing else "different")
        ctx.violation(
            f"boundary_set:{what}:{n}d:{'aniso' if aniso else 'iso'}:{kind}",
            f"{tag}: returned {len(kg)} coordinates ({dup} duplicates), expected {len(ke)} boundary-cell centres; {missing} missing, {extra} not on the boundary; e.g. missing {sorted(se - sg)[:2]} extra {sorted(sg - se)[:2]}",
        )
        return
    comps = hdr.components(B)
    ctx.cls(f"components={min(len(comps), 3)}")
    if len(comps) == 1:
        if kind != "single":
            ctx.violation("single_region_not_array", f"{tag}: one connected boundary but coordinates is a list of {len(parts)} parts")
            return
        if n == 2:
            from virocon.utils import sort_points_to_form_continuous_line

            bx = run.centers[0][idx[:, 0]]
            by = run.centers[1][idx[:, 1]]
            try:
                with H.time_limit(H.HDC_BUDGET_S):
                    ex, ey = sort_points_to_form_continuous_line(bx, by, search_for_optimal_start=True)
            except H.CaseTimeout:
                ctx.cls("timeout:order_check")
                return
            if len(ex) == len(got) and not (np.array_equal(got[:, 0], ex) and np.array_equal(got[:, 1], ey)):
                ctx.violation("order:not_sorter_order", f"{tag}: coordinates are not in the order of sort_points_to_form_continuous_line")
    else:
        if kind != "multi" or len(parts) != len(comps):
            ctx.violation("components:count", f"{tag}: boundary has {len(comps)} connected components but {len(parts) if kind == 'multi' else 1} coordinate sets were returned")
            return
        exp_sets = sorted([key(np.stack([run.centers[k][c[:, k]] for k in range(n)], axis=1)) for c in comps])
        got_sets = sorted([key(p) for p in parts])
        if exp_sets != got_sets:
            ctx.violation("components:partition", f"{tag}: coordinate sets do not coincide with the connected components")


# -------------------------------------------------------------------------- part sorter
def make_points(case):
    kind, n = case["kind"], case["n"]
    rng = np.random.default_rng(case["seed"])
    if kind == "polygon":
        t = 2 * np.pi * np.arange(n) / n
        x, y = np.cos(t), np.sin(t)
    elif kind == "ellipse":
        t = 2 * np.pi * np.arange(n) / n
        x, y = case["aspect"] * np.cos(t), np.sin(t)
    elif kind == "lattice_ring":
        m = max(3, n // 4)
        k = np.arange(m)
        x = np.concatenate([k, np.full(m, m), m - k, np.zeros(m)]).astype(float) * case["dx"]
        y = np.concatenate([np.zeros(m), k, np.full(m, m), m - k]).astype(float) * case["dy"]
    elif kind == "clusters":
        centers = rng.uniform(-10, 10, size=(3, 2))
        pts = np.concatenate([c + 0.3 * rng.standard_normal((max(1, n // 3), 2)) for c in centers])
        x, y = pts[:, 0], pts[:, 1]
    else:
        pts = rng.uniform(0, 1, size=(n, 2)) * np.array([case["aspect"], 1.0])
        x, y = pts[:, 0], pts[:, 1]
    if case["shuffle"]:
        p = rng.permutation(len(x))
        x, y = x[p], y[p]
    return np.asarray(x, dtype=float), np.asarray(y, dtype=float)


def check_sorter(case, ctx):
    from virocon.utils import sort_points_to_form_continuous_line

    x, y = make_points(case)
    ctx.cls(f"kind={case['kind']}", f"optimal_start={case['optimal']}")
    ctx.nontrivial(len(x) >= 8)
    xb, yb = x.copy(), y.copy()
    try:
        xs, ys = sort_points_to_form_continuous_line(x, y, search_for_optimal_start=case["optimal"])
    except Exception as e:  # noqa: BLE001
        ctx.violation(f"sorter:raises:{type(e).__name__}", f"{case}: {str(e)[:200]}")
        return
    if not (np.array_equal(x, xb) and np.array_equal(y, yb)):
        ctx.violation("sorter:input_mutated", f"{case}")
    a = sorted(zip(np.asarray(xs).tolist(), np.asarray(ys).tolist()))
    b = sorted(zip(x.tolist(), y.tolist()))
    if a != b:
        ctx.violation(
            f"sorter:not_a_permutation:{case['kind']}",
            f"{case}: {len(x)} points in, {len(a)} out ({len(set(b) - set(a))} lost, {len(a) - len(set(a))} duplicated)",
        )


def strat_sorter(tier):
    return st.builds(
        lambda kind, n, seed, aspect, dx, dy, shuffle, optimal: dict(kind=kind, n=n, seed=seed, aspect=aspect, dx=dx, dy=dy, shuffle=shuffle, optimal=optimal),
        st.sampled_from(["polygon", "ellipse", "lattice_ring", "clusters", "random"]),
        st.one_of(st.integers(3, 40), st.integers(3, 400 if tier == "thorough" else 150)),
        st.integers(0, 2**31 - 1),
        st.floats(1, 20),
        st.sampled_from([1.0, 0.1, 0.5, 2.0]),
        st.sampled_from([1.0, 0.3, 1.0, 5.0]),
        st.booleans(),
        st.booleans(),
    )


PARTS = [
    Part("hdc", check_hdc, lambda tier: H.hdc_case(tier), max_workers=12, quick=400, thorough=7000, shrink_quick=False, min_per_shard=4, min_nontrivial_frac=0.25),
    Part("sorter", check_sorter, strat_sorter, quick=1500, thorough=40000, min_nontrivial_frac=0.25),
]
