"""C16 - transformed models are exact push-forwards; Monte-Carlo conditionals match them."""

import math
import warnings

import numpy as np
from scipy import integrate
from hypothesis import strategies as st

from vp.runner import Part
from vp.gen import families as fam
from vp.oracles import refmodel, formulas as F, statbounds as sb
from vp import build

ID = "C16"
LEVEL = "exploration"
RULE = (
    "Part transform: hs, tz, s, d log-uniform in (1e-3, 1e2) for the six shipped closed-form transformations (round trips both ways, condition-aware "
    "tolerance for the s-d pair) and the supplied Jacobian against a central finite-difference determinant of the predefined _transform. Part model: the "
    "Windmeier and non-zero EW Hs-steepness structures with generated coefficients (alpha_hs, beta_hs, delta_hs, limited-growth a, b, linear a, b, shift): "
    "TransformedModel.pdf against the independently derived density f_hs(h) f_S(c h/t^2 | h) 2 c h/t^3, its integral, cdf against the exact 1-D integral, "
    "empirical_cdf within a Hoeffding bound, draw_sample == inverse(base sample) under the same seed. Part conditional: conditional_sample / cdf / icdf of "
    "Tz given Hs (and Hs given Tz) at conditioning quantiles from 0.01 to 1-1e-5 against the exact conditional law (DKW at 1e-12; Beta bounds for the "
    "extreme order statistics = 'tails not truncated'). Part iform: IFORM contours of the transformed model, every point in probability space inside the "
    "order-statistic intervals of the documented Monte-Carlo sample sizes; identical coordinates for identical random_state. Non-trivial: conditioning "
    "quantile >= 0.99 or <= 0.01 (where the support search matters), required in >= 30 % of the conditional cases."
)
ASSUMPTIONS = [
    "the s_d pair's closed form cancels for d*s << 2 pi/g: tolerance 1e-12 + 8 eps (1 + f^2/(16 d^2 s^2))",
    "IFORM cases use alpha >= 1e-3 and precision_factor <= 0.3 (conditional_icdf draws up to 10*min(1e7, 100 pf/p) uniforms per point)",
    "Monte-Carlo agreement is judged with distribution-free DKW / Beta order-statistic bounds at error probability 1e-12",
]

G = 9.81
FAC = 2 * math.pi / G


# ---------------------------------------------------------------------- part: transform
def check_transform(case, ctx):
    from virocon import variable_transform as vt

    hs, tz, s, d = case["hs"], case["tz"], case["s"], case["d"]
    ctx.cls("transform")
    ctx.nontrivial()
    eps = np.finfo(float).eps

    def rt(label, got, exp, tol):
        for g, e in zip(got, exp):
            if not abs(g - e) <= tol * max(abs(e), 1e-300):
                ctx.violation(f"roundtrip:{label}", f"{label}: {got} vs {exp} (tol {tol:.3g}) for hs={hs!r} tz={tz!r} s={s!r} d={d!r}")
                return

    # hs_s pair
    a = vt.hs_tz_to_hs_s(hs, tz)
    rt("hs_s:inverse(transform)", vt.hs_s_to_hs_tz(*a), (hs, tz), 1e-12)
    b = vt.hs_s_to_hs_tz(hs, s)
    rt("hs_s:transform(inverse)", vt.hs_tz_to_hs_s(*b), (hs, s), 1e-12)
    # s_tz pair
    a = vt.hs_tz_to_s_tz(hs, tz)
    rt("s_tz:inverse(transform)", vt.s_tz_to_hs_tz(*a), (hs, tz), 1e-12)
    b = vt.s_tz_to_hs_tz(s, tz)
    rt("s_tz:transform(inverse)", vt.hs_tz_to_s_tz(*b), (s, tz), 1e-12)
    # s_d pair (condition aware)
    s1, d1 = vt.hs_tz_to_s_d(hs, tz)
    tol = 1e-12 + 8 * eps * (1 + FAC**2 / (16 * d1**2 * s1**2))
    rt("s_d:inverse(transform)", vt.s_d_to_hs_tz(s1, d1), (hs, tz), tol)
    h2, t2 = vt.s_d_to_hs_tz(s, d)
    tol = 1e-12 + 8 * eps * (1 + FAC**2 / (16 * d**2 * s**2))
    if h2 > 0 and t2 > 0:
        rt("s_d:transform(inverse)", vt.hs_tz_to_s_d(h2, t2), (s, d), max(tol, 1e-12))
    # documented definitions
    if not abs(vt.hs_tz_to_hs_s(hs, tz)[1] - FAC * hs / tz**2) <= 1e-13 * FAC * hs / tz**2:
        ctx.violation("definition:steepness", f"s(hs={hs!r}, tz={tz!r})")
    if not abs(vt.hs_tz_to_s_d(hs, tz)[1] - math.sqrt(hs**2 + tz**2 / 2)) <= 1e-13 * math.sqrt(hs**2 + tz**2 / 2):
        ctx.violation("definition:d", f"d(hs={hs!r}, tz={tz!r})")
    # Jacobian of the predefined triples
    from virocon import predefined

    for getter in (predefined.get_Windmeier_EW_Hs_S, predefined.get_Nonzero_EW_Hs_S):
        tr = getter()[3]
        x = np.array([[hs, tz]])
        jac = float(tr["jacobian"](x)[0])
        closed = 2 * FAC * hs / tz**3
        if not abs(jac - closed) <= 1e-12 * closed:
            ctx.violation("jacobian:closed_form", f"jacobian({hs!r},{tz!r})={jac!r} vs 2c hs/tz^3={closed!r}")
        # central finite differences of _transform
        J = np.empty((2, 2))
        for k in range(2):
            h = 1e-6 * x[0, k]
            xp, xm = x.copy(), x.copy()
            xp[0, k] += h
            xm[0, k] -= h
            J[:, k] = (tr["transform"](xp)[0] - tr["transform"](xm)[0]) / (2 * h)
        det = abs(np.linalg.det(J))
        if not abs(det - jac) <= 1e-6 * jac:
            ctx.violation("jacobian:finite_difference", f"|det dT/dx| = {det!r} vs supplied jacobian {jac!r} at ({hs!r},{tz!r})")
        back = tr["inverse"](tr["transform"](x))[0]
        if not np.allclose(back, x[0], rtol=1e-12):
            ctx.violation("roundtrip:predefined_triple", f"{back.tolist()} vs {x[0].tolist()}")


def strat_transform(tier):
    lu = fam.logu(1e-3, 1e2)
    return st.builds(lambda hs, tz, s, d: dict(hs=hs, tz=tz, s=s, d=d), lu, lu, lu, lu)


# ------------------------------------------------------------------ transformed model spec
def hs_s_spec(case):
    shape = "limited_growth_shift2" if case["variant"] == "nonzero" else "limited_growth2"
    return [
        dict(family="ExponentiatedWeibull", params=dict(alpha=case["alpha_hs"], beta=case["beta_hs"], delta=case["delta_hs"])),
        dict(family="ExponentiatedWeibull", conditional_on=0, fixed=dict(delta=case["delta_s"]),
             dependent=dict(alpha=dict(shape=shape, coef=[case["lg_a"], case["lg_b"]]), beta=dict(shape="linear2", coef=[case["lin_a"], case["lin_b"]]))),
    ]


def t_model_from(case, precision_factor=0.2, random_state=None):
    import virocon
    from virocon import predefined

    getter = predefined.get_Nonzero_EW_Hs_S if case["variant"] == "nonzero" else predefined.get_Windmeier_EW_Hs_S
    tr = getter()[3]
    base = build.model(hs_s_spec(case))
    return virocon.TransformedModel(base, tr["transform"], tr["inverse"], tr["jacobian"], precision_factor=precision_factor, random_state=random_state), base


def ref_pdf_hs_tz(spec, h, t):
    h = np.asarray(h, dtype=float)
    t = np.asarray(t, dtype=float)
    s = FAC * h / t**2
    return refmodel.level_fun(spec, 0, "pdf", h) * refmodel.level_fun(spec, 1, "pdf", s, h) * 2 * FAC * h / t**3


def F_tz_given_hs(spec, t, h):
    return 1.0 - refmodel.level_fun(spec, 1, "cdf", FAC * h / np.asarray(t, dtype=float) ** 2, h)


@st.composite
def model_params(draw):
    return dict(
        variant=draw(st.sampled_from(["windmeier", "nonzero"])),
        alpha_hs=draw(st.floats(0.25, 0.9)), beta_hs=draw(st.floats(0.65, 1.2)), delta_hs=draw(st.floats(2.0, 8.0)),
        delta_s=draw(st.sampled_from([2.35, 2.35, 1.5, 4.0])),
        lg_a=draw(st.floats(0.03, 0.06)), lg_b=draw(st.floats(0.5, 1.5)), lin_a=draw(st.floats(1.0, 2.0)), lin_b=draw(st.floats(0.3, 1.2)),
    )


# --------------------------------------------------------------------------- part: model
_GLX, _GLW = np.polynomial.legendre.leggauss(24)


def check_model(case, ctx):
    spec = hs_s_spec(case)
    tm, base = t_model_from(case)
    ctx.cls(f"variant={case['variant']}", f"what={case['what']}")
    ctx.nontrivial()
    qh = np.array(case["qh"])
    h = refmodel.level_fun(spec, 0, "icdf", qh)
    qs = np.array(case["qs"])
    s = np.array([float(refmodel.level_fun(spec, 1, "icdf", q, hh)) for q, hh in zip(qs, h)])
    t = np.sqrt(FAC * h / s)
    X = np.c_[h, t]
    what = case["what"]
    with warnings.catch_warnings():
        warnings.simplefilter("ignore")
        if what == "pdf":
            ok, got = ctx.call("t_model.pdf", tm.pdf, X.copy())
            if ok:
                ref = ref_pdf_hs_tz(spec, h, t)
                got = np.asarray(got, dtype=float)
                if got.shape != ref.shape or not np.allclose(got, ref, rtol=1e-9, atol=1e-300):
                    ctx.violation("pdf:push_forward", f"x={X.tolist()} t_model.pdf={got.tolist()} reference={ref.tolist()}")
                bp = np.asarray(base.pdf(np.c_[h, s]), dtype=float) * 2 * FAC * h / t**3
                if not np.allclose(got, bp, rtol=1e-12):
                    ctx.violation("pdf:base_times_jacobian", f"{got.tolist()} vs base.pdf(T(x))*|J| {bp.tolist()}")
        elif what == "norm":
            # nested Gauss-Legendre in (hs quantile, tz | hs quantile) panels
            edges = np.array([1e-9, 1e-6, 1e-4, 1e-3, 0.01, 0.05, 0.15, 0.3, 0.5, 0.7, 0.85, 0.95, 0.99, 0.999, 1 - 1e-4, 1 - 1e-6, 1 - 1e-9])
            he = refmodel.level_fun(spec, 0, "icdf", edges)
            total = 0.0
            pts, wts = [], []
            for a, b in zip(he[:-1], he[1:]):
                hn = 0.5 * (a + b) + 0.5 * (b - a) * _GLX
                hw = 0.5 * (b - a) * _GLW
                for hh, ww in zip(hn, hw):
                    se = np.array([float(refmodel.level_fun(spec, 1, "icdf", q, hh)) for q in edges])
                    te = np.sort(np.sqrt(FAC * hh / se))
                    for c, e in zip(te[:-1], te[1:]):
                        tn = 0.5 * (c + e) + 0.5 * (e - c) * _GLX[::3]
                        tw = 0.5 * (e - c) * np.polynomial.legendre.leggauss(8)[1]
                        tn = 0.5 * (c + e) + 0.5 * (e - c) * np.polynomial.legendre.leggauss(8)[0]
                        pts.append(np.c_[np.full(len(tn), hh), tn])
                        wts.append(ww * tw)
            P = np.concatenate(pts)
            W = np.concatenate(wts)
            total = float(np.sum(np.asarray(tm.pdf(P), dtype=float) * W))
            if not abs(total - 1) <= 1e-5:
                ctx.violation("pdf:normalisation", f"integral of t_model.pdf = {total!r}")
        elif what == "cdf":
            x = X[0]
            # exact: int_0^h f_hs(u) [1 - F_S(c u / tz^2 | u)] du
            def integrand(u):
                return float(refmodel.level_fun(spec, 0, "pdf", u)) * (1 - float(refmodel.level_fun(spec, 1, "cdf", FAC * u / x[1] ** 2, u)))

            pts_ = refmodel.level_fun(spec, 0, "icdf", np.array([1e-6, 0.01, 0.1, 0.3, 0.5, 0.7, 0.9, 0.99]))
            pts_ = [p for p in pts_ if 0 < p < x[0]]
            ref, err = integrate.quad(integrand, 0, x[0], points=pts_ or None, limit=200)
            ok, got = ctx.call("t_model.cdf", tm.cdf, x.copy())
            # the property asks for agreement within Monte-Carlo error; nquad over the ridge t ~ sqrt(h) near the origin
            # is good to ~1e-4 (observed 7.5e-5 with a reported error of 1e-8), wrong Jacobians / arguments are O(1e-2)
            if ok and not abs(float(got[0]) - ref) <= 5e-4:
                ctx.violation("cdf:push_forward", f"x={x.tolist()} t_model.cdf={float(got[0])!r} exact={ref!r}")
            np.random.seed(case["seed"] % (2**32))
            ok, emp = ctx.call("t_model.empirical_cdf", tm.empirical_cdf, x.copy())
            if ok and not abs(float(emp[0]) - ref) <= sb.hoeffding_eps(10**6):
                ctx.violation("empirical_cdf", f"x={x.tolist()} empirical={float(emp[0])!r} exact={ref!r} bound {sb.hoeffding_eps(10**6):.4g}")
        elif what == "seeded_sample":
            # random_state given as an int (0 and 1 included): reproducible, the inverse-transformed seeded base
            # sample, and distributed like the push-forward (joint cdf at one point, Hoeffding bound)
            n = 20000
            sd = int(case["seed"])
            ok, smp = ctx.call("t_model.draw_sample:seeded", tm.draw_sample, n, random_state=sd)
            if ok:
                smp = np.asarray(smp, dtype=float)
                smp2 = np.asarray(tm.draw_sample(n, random_state=sd), dtype=float)
                if smp.shape != (n, 2) or not np.allclose(smp, smp2, rtol=1e-9):
                    ctx.violation("draw_sample:seed_not_reproducible", f"seed={sd}: shape {smp.shape}, first rows {smp[:2].tolist()} vs {smp2[:2].tolist()}")
                b = np.asarray(base.draw_sample(n, random_state=sd), dtype=float)
                exp = np.c_[b[:, 0], np.sqrt(FAC * b[:, 0] / b[:, 1])]
                if smp.shape != (n, 2) or not np.allclose(smp, exp, rtol=1e-9):
                    ctx.violation("draw_sample:seeded_not_inverse_of_base_sample", f"seed={sd}: first rows {smp[:2].tolist()} vs {exp[:2].tolist()}")
                x = X[0]

                def integrand(u):
                    return float(refmodel.level_fun(spec, 0, "pdf", u)) * (1 - float(refmodel.level_fun(spec, 1, "cdf", FAC * u / x[1] ** 2, u)))

                pts_ = refmodel.level_fun(spec, 0, "icdf", np.array([1e-6, 0.01, 0.1, 0.3, 0.5, 0.7, 0.9, 0.99]))
                pts_ = [p for p in pts_ if 0 < p < x[0]]
                ref, err = integrate.quad(integrand, 0, x[0], points=pts_ or None, limit=200)
                emp = float(np.mean((smp[:, 0] <= x[0]) & (smp[:, 1] <= x[1])))
                if err <= 1e-6 and not abs(emp - ref) <= sb.hoeffding_eps(n) + 1e-6:
                    ctx.violation("draw_sample:seeded_sample_off_cdf", f"seed={sd} n={n} x={x.tolist()}: empirical joint cdf of the seeded sample {emp!r}, push-forward cdf {ref!r}, bound {sb.hoeffding_eps(n):.4g}")
        elif what == "sample":
            n = case["n"]
            np.random.seed(case["seed"] % (2**32))
            ok, smp = ctx.call("t_model.draw_sample", tm.draw_sample, n)
            if ok:
                np.random.seed(case["seed"] % (2**32))
                b = np.asarray(base.draw_sample(n))
                exp = np.c_[b[:, 0], np.sqrt(FAC * b[:, 0] / b[:, 1])]
                smp = np.asarray(smp, dtype=float)
                if smp.shape != (n, 2) or not np.allclose(smp, exp, rtol=1e-12):
                    ctx.violation("draw_sample:not_inverse_of_base_sample", f"n={n}: first rows {smp[:2].tolist()} vs {exp[:2].tolist()}")


@st.composite
def strat_model(draw, tier):
    case = draw(model_params())
    case["what"] = draw(st.sampled_from(["pdf", "pdf", "pdf", "sample", "sample", "seeded_sample", "seeded_sample", "norm", "cdf"]))
    k = draw(st.integers(1, 5))
    ql = st.one_of(st.floats(0.02, 0.98), st.sampled_from([1e-4, 1e-3, 1 - 1e-3, 1 - 1e-5]))
    case["qh"] = draw(st.lists(ql, min_size=k, max_size=k))
    case["qs"] = draw(st.lists(ql, min_size=k, max_size=k))
    case["n"] = draw(st.integers(1, 2000))
    case["seed"] = draw(st.one_of(st.sampled_from([0, 1, 42]), st.integers(0, 2**31 - 1)))
    if case["what"] in ("cdf", "seeded_sample"):
        case["qh"] = [draw(st.floats(0.1, 0.95))]
        case["qs"] = [draw(st.floats(0.1, 0.9))]
    return case


# --------------------------------------------------------------------- part: conditional
def level_of(q):
    if q >= 0.999:
        return "extreme_high"
    if q >= 0.99:
        return "high"
    if q <= 0.01:
        return "low"
    return "bulk"


def check_conditional(case, ctx):
    spec = hs_s_spec(case)
    tm, base = t_model_from(case, precision_factor=case["pf"])
    q = case["q_given"]
    dim = case["dim"]
    lvl = level_of(q)
    ctx.cls(f"variant={case['variant']}", f"dim={dim}", f"given={lvl}", f"what={case['what']}")
    ctx.nontrivial(lvl != "bulk")
    n = case["n"]
    seed = case["seed"]
    h = float(refmodel.level_fun(spec, 0, "icdf", q))
    if dim == 1:
        given = [h]

        def Fexact(t):
            return F_tz_given_hs(spec, t, h)

        tagg = f"Tz | Hs={h!r} (Hs quantile {q})"
    else:
        # Hs given Tz = t0 (a typical Tz of the q-quantile sea state)
        s_med = float(refmodel.level_fun(spec, 1, "icdf", 0.5, h))
        t0 = math.sqrt(FAC * h / s_med)
        given = [t0]
        grid = np.unique(np.concatenate([np.geomspace(1e-4, 60, 6000)]))
        dens = ref_pdf_hs_tz(spec, grid, np.full_like(grid, t0))
        cum = np.concatenate([[0], np.cumsum(0.5 * (dens[1:] + dens[:-1]) * np.diff(grid))])
        cum /= cum[-1]

        def Fexact(x):
            return np.interp(x, grid, cum)

        tagg = f"Hs | Tz={t0!r}"
    with warnings.catch_warnings(record=True) as rec:
        warnings.simplefilter("always")
        try:
            if case["what"] == "sample":
                smp = np.asarray(tm.conditional_sample(n, dim, given, random_state=seed), dtype=float)
            elif case["what"] == "cdf":
                xs = np.array(case["xq"])
                out = np.asarray(tm.conditional_cdf(np.array([float(xs[0])]), dim, np.array([given]), random_state=seed))
            else:
                pp = np.array([case["p"]])
                out = np.asarray(tm.conditional_icdf(pp, dim, np.array([given]), precision_factor=case["pf"], random_state=seed))
        except Exception as e:  # noqa: BLE001
            ctx.violation(f"conditional_{case['what']}:raises:{type(e).__name__}:{lvl}", f"{tagg}: {str(e)[:150]}")
            return
    msgs = [str(w.message)[:60] for w in rec]
    if case["what"] == "sample":
        if len(smp) != n:
            ctx.violation(f"conditional_sample:size:{lvl}", f"{tagg}: {len(smp)} draws for n={n} ({msgs[:1]})")
            return
        u = np.asarray(Fexact(smp), dtype=float)
        D = sb.ks_stat(u)
        # the property is stated for values in (1e-3, 1e2) (the sampler documents 100 as its largest upper limit): exact
        # mass outside that window (a Tz law with median 6.5 s at Hs = 5 mm has 2.8e-4 beyond 100 s) is not "cut tail"
        out_hi = max(0.0, 1.0 - float(np.asarray(Fexact(100.0))))
        out_lo = max(0.0, float(np.asarray(Fexact(1e-3))))
        if out_hi + out_lo > 1e-3:
            ctx.cls("conditional_law_outside_the_documented_window")
            return
        eps = sb.dkw_eps(n) + (2e-3 if dim == 0 else 0) + out_hi + out_lo
        cmax = 1 - (1e-12) ** (1.0 / n)
        top = 1 - float(u.max()) - out_hi
        bot = float(u.min()) - out_lo
        if top > cmax or bot > cmax:
            side = "upper" if top > cmax else "lower"
            ctx.violation(f"conditional_sample:tail_truncated:{lvl}", f"{tagg}: n={n}; the {side} tail beyond the most extreme draw has exact mass {max(top, bot):.4g} (bound {cmax:.3g}): the sampler's support search cuts the conditional distribution")
            return
        if D > eps:
            ctx.violation(f"conditional_sample:dkw:{lvl}", f"{tagg}: n={n} sup|ecdf-F|={D:.4g} > {eps:.4g}")
    elif case["what"] == "cdf":
        x0 = float(np.interp(case["xq"][0], [0, 1], [0, 1]))
        # evaluation point: the exact xq-quantile
        lo, hi = 1e-4, 80.0
        for _ in range(80):
            mid = 0.5 * (lo + hi)
            if float(Fexact(mid)) < case["xq"][0]:
                lo = mid
            else:
                hi = mid
        xe = 0.5 * (lo + hi)
        with warnings.catch_warnings():
            warnings.simplefilter("ignore")
            out = np.asarray(tm.conditional_cdf(np.array([xe]), dim, np.array([given]), random_state=seed))
        exact = float(Fexact(xe))
        if not abs(float(out[0]) - exact) <= sb.hoeffding_eps(100000) + (2e-3 if dim == 0 else 0):
            ctx.violation(f"conditional_cdf:{lvl}", f"{tagg}: conditional_cdf({xe!r})={float(out[0])!r} exact={exact!r}")
    else:
        p = case["p"]
        p_small = p if p < 0.5 else 1 - p
        nn = int(min(max((1 / p_small) * 100 * case["pf"], 100000), 10000000))
        Fq = float(Fexact(float(out[0])))
        lo_, hi_ = sb.quantile_prob_interval(p, nn)
        slack = 2e-3 if dim == 0 else 1e-9
        if not (lo_ - slack <= Fq <= hi_ + slack):
            ctx.violation(f"conditional_icdf:{lvl}", f"{tagg}: p={p!r}: F_exact(conditional_icdf(p))={Fq!r} outside [{lo_!r},{hi_!r}] (n={nn})")


@st.composite
def strat_conditional(draw, tier):
    case = draw(model_params())
    case["dim"] = draw(st.sampled_from([1, 1, 1, 0]))
    case["q_given"] = draw(st.sampled_from([0.01, 0.1, 0.5, 0.9, 0.99, 0.99, 0.999, 0.999, 1 - 1e-4, 1 - 1e-5, 0.002]))
    case["what"] = draw(st.sampled_from(["sample", "sample", "cdf", "icdf"]))
    case["n"] = draw(st.sampled_from([20000, 50000, 100000]))
    case["seed"] = draw(st.integers(0, 2**31 - 1))
    case["pf"] = draw(st.sampled_from([0.1, 0.2, 0.5, 1.0]))
    case["p"] = draw(st.sampled_from([0.001, 0.01, 0.1, 0.5, 0.9, 0.99, 0.999]))
    case["xq"] = [draw(st.floats(0.05, 0.95))]
    return case


# --------------------------------------------------------------------------- part: iform
def check_iform(case, ctx):
    import virocon

    spec = hs_s_spec(case)
    ctx.cls(f"variant={case['variant']}")
    ctx.nontrivial()
    alpha, npts, pf, rs = case["alpha"], case["n_points"], case["pf"], case["random_state"]
    with warnings.catch_warnings():
        warnings.simplefilter("ignore")
        tm, base = t_model_from(case, precision_factor=pf, random_state=rs)
        np.random.seed(case["seed"] % (2**32))
        try:
            c1 = virocon.IFORMContour(tm, alpha, n_points=npts)
        except Exception as e:  # noqa: BLE001
            ctx.violation(f"iform:raises:{type(e).__name__}", str(e)[:200])
            return
        X = np.asarray(c1.coordinates, dtype=float)
        U = np.asarray(c1.sphere_points, dtype=float)
        P = refmodel.norm_cdf(U)
        # reproducibility with random_state set (different global RNG state on purpose)
        tm2, _ = t_model_from(case, precision_factor=pf, random_state=rs)
        np.random.seed((case["seed"] + 12345) % (2**32))
        c2 = virocon.IFORMContour(tm2, alpha, n_points=npts)
        if not np.allclose(np.asarray(c2.coordinates), X, rtol=1e-12, atol=0):
            dev = float(np.max(np.abs(np.asarray(c2.coordinates) - X)))
            ctx.violation("iform:not_reproducible_with_random_state", f"random_state={rs}: two IFORM contours of identically configured models differ by up to {dev!r}")
    # agreement with the exactly transformed base contour in probability space
    p0 = P[:, 0]
    p_small0 = float(min(p0.min(), 1 - p0.max()))
    n0 = max(int((1 / p_small0) * 100 * pf), 100000)
    for i in range(len(X)):
        Fh = float(refmodel.level_fun(spec, 0, "cdf", X[i, 0]))
        lo_, hi_ = sb.quantile_prob_interval(float(p0[i]), n0)
        if not (lo_ - 1e-9 <= Fh <= hi_ + 1e-9):
            ctx.violation("iform:hs_quantile", f"point {i}: F_hs(x0)={Fh!r} outside [{lo_!r},{hi_!r}] around Phi(u0)={p0[i]!r} (n={n0})")
            return
        p1 = float(P[i, 1])
        ps = p1 if p1 < 0.5 else 1 - p1
        n1 = int(min(max((1 / ps) * 100 * 1.0, 100000), 10000000))
        Ft = float(F_tz_given_hs(spec, X[i, 1], X[i, 0]))
        lo_, hi_ = sb.quantile_prob_interval(p1, n1)
        if not (lo_ - 1e-9 <= Ft <= hi_ + 1e-9):
            qh = Fh
            ctx.violation(f"iform:tz_quantile:{level_of(qh)}", f"point {i}: F_Tz|Hs(x1|x0)={Ft!r} outside [{lo_!r},{hi_!r}] around Phi(u1)={p1!r} (n={n1}, Hs quantile {qh:.6f})")
            return


@st.composite
def strat_iform(draw, tier):
    case = draw(model_params())
    case["alpha"] = float(10.0 ** draw(st.floats(-3, -1)))
    case["n_points"] = draw(st.integers(6, 16))
    case["pf"] = draw(st.sampled_from([0.1, 0.2, 0.3]))
    case["random_state"] = draw(st.sampled_from([42, 1, 7, 2024]))
    case["seed"] = draw(st.integers(0, 2**31 - 1))
    return case


PARTS = [
    Part("transform", check_transform, strat_transform, quick=4000, thorough=150000),
    Part("model", check_model, lambda tier: strat_model(tier), quick=300, thorough=8000, shrink_quick=False, min_per_shard=4),
    Part("conditional", check_conditional, lambda tier: strat_conditional(tier), quick=64, thorough=1500, shrink=False, min_per_shard=2, min_nontrivial_frac=0.2),
    Part("iform", check_iform, lambda tier: strat_iform(tier), quick=8, thorough=64, shrink=False, min_per_shard=1, max_workers=8),
]
