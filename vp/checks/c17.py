"""C17 - design conditions lie on the contour at the requested abscissa, top ordinate."""

import math
from fractions import Fraction as Fr

import numpy as np
from hypothesis import strategies as st

from vp.runner import Part
from vp.gen import models
from vp import build

ID = "C17"
LEVEL = "exploration"
RULE = (
    "Part design: (a) IFORM / ISORM / direct-sampling contours of generated 2-D models (incl. a Normal second variable with negative mean: "
    "negative ordinates), (b) random star-shaped polygons with 5-60 vertices and radial noise up to +-60 % (non-convex, several crossings per "
    "abscissa, any sign of the ordinates); steps None / int 1-40 / explicit lists inside and partly outside the x-range; both swap_axis values. "
    "Oracle: exact rational arithmetic (fractions.Fraction) on the closed polygon - the crossings of x = a, the row must be (a, max crossing "
    "ordinate), abscissae without crossing are omitted, row order = step order, default steps = linspace(min+eps, max-eps), swap_axis == "
    "exchanging the coordinate columns. Part intersection: pairs of random polylines (2-40 segments) in general position; the returned points must "
    "equal the exact crossing set as multisets and lie on both polylines. Parts design_large / intersection_large: the same oracles on polygons, IFORM "
    "contours (n_points 257-1000) and polylines of 100-1500 vertices (incl. 255..258, 511..513, 1024, 1025), abscissae chosen inside individual edges, "
    "among them the edges around every multiple of 64; a float pre-filter selects the straddling edges / overlapping bounding boxes and only those go "
    "through Fractions. Non-trivial: an abscissa with >= 4 crossings or swap_axis=True."
)
ASSUMPTIONS = [
    "general position by construction: requested abscissae never equal a vertex abscissa (those that do are skipped), polylines share no vertices and have no collinear overlaps",
    "comparison tolerance 1e-9 relative to the polygon extent",
]


class Stub:
    """object with .coordinates (all that calculate_design_conditions uses)"""

    def __init__(self, coords):
        self.coordinates = coords


def exact_crossings(P, a):
    """ordinates where the closed polygon P (list of (x,y) floats) crosses x = a (exact); None if a hits a vertex"""
    a = Fr(a)
    ys = []
    n = len(P)
    for i in range(n):
        x0, y0 = Fr(P[i][0]), Fr(P[i][1])
        x1, y1 = Fr(P[(i + 1) % n][0]), Fr(P[(i + 1) % n][1])
        if x0 == a or x1 == a:
            return None
        if (x0 - a) * (x1 - a) < 0:
            ys.append(y0 + (a - x0) * (y1 - y0) / (x1 - x0))
    return ys


def exact_crossings_fast(P, a):
    """exact_crossings for polygons with hundreds of vertices: the edges that straddle x = a are found in floating
    point (the sign of a float difference is exact), only those are evaluated with Fractions"""
    A = np.asarray(P, dtype=float)
    x0, x1 = A[:, 0], np.roll(A[:, 0], -1)
    if np.any(x0 == a):
        return None
    idx = np.nonzero((x0 - a) * (x1 - a) < 0)[0]
    n = len(A)
    af = Fr(a)
    ys = []
    for i in idx.tolist():
        fx0, fy0 = Fr(float(A[i, 0])), Fr(float(A[i, 1]))
        fx1, fy1 = Fr(float(A[(i + 1) % n, 0])), Fr(float(A[(i + 1) % n, 1]))
        ys.append(fy0 + (af - fx0) * (fy1 - fy0) / (fx1 - fx0))
    return ys


def make_polygon(case):
    rng = np.random.default_rng(case["seed"])
    m = case["m"]
    ang = np.sort(rng.uniform(0, 2 * np.pi, m))
    r = 1 + case["noise"] * rng.uniform(-1, 1, m)
    cx, cy = case["centre"]
    sx, sy = case["scale"]
    P = np.c_[cx + sx * r * np.cos(ang), cy + sy * r * np.sin(ang)]
    return np.round(P, 6)


def get_contour(case, ctx):
    kind = case["contour"]
    if kind == "polygon":
        return Stub(make_polygon(case))
    from virocon import IFORMContour, ISORMContour, DirectSamplingContour

    model = build.model(case["model"])
    try:
        if kind == "IFORM":
            return IFORMContour(model, case["alpha"], n_points=case["n_points"])
        if kind == "ISORM":
            return ISORMContour(model, case["alpha"], n_points=case["n_points"])
        sample = model.draw_sample(case["n_sample"], random_state=case["seed"])
        return DirectSamplingContour(model, case["alpha"], deg_step=case["deg_step"], sample=sample)
    except Exception as e:  # noqa: BLE001
        ctx.note(f"contour construction failed: {type(e).__name__}")
        return None


def check_design(case, ctx):
    from virocon import calculate_design_conditions

    cont = get_contour(case, ctx)
    if cont is None:
        return
    C = np.asarray(cont.coordinates, dtype=float)
    if C.ndim != 2 or C.shape[1] != 2 or not np.all(np.isfinite(C)) or len(C) < 3:
        return
    swap = case["swap_axis"]
    ctx.cls(f"contour={case['contour']}", f"swap={swap}", f"steps={case['steps_kind']}")
    xi, yi = (1, 0) if swap else (0, 1)
    P = [(float(r[xi]), float(r[yi])) for r in C]
    xs = np.array([p[0] for p in P])
    ys = np.array([p[1] for p in P])
    ext = max(xs.max() - xs.min(), ys.max() - ys.min(), 1e-300)
    if xs.max() - xs.min() <= 0:
        return
    ctx.cls("negative_ordinates" if ys.max() <= 0 else ("mixed_sign_ordinates" if ys.min() < 0 else "positive_ordinates"))
    # requested steps
    sk = case["steps_kind"]
    if sk == "none":
        steps_arg = None
        num = 10
    elif sk == "int":
        steps_arg = int(case["n_steps"])
        num = steps_arg
    elif sk == "edges":
        # abscissae inside chosen edges of the polygon (every edge must be found, also edge 255 -> 256 of a long contour)
        n_v = len(P)
        rng_e = np.random.default_rng(case["seed"] + 17)
        pick = set(rng_e.integers(0, n_v, size=min(n_v, 40)).tolist())
        for k in range(64, n_v + 1, 64):  # block boundaries of any power-of-two chunking
            pick.update({(k - 2) % n_v, (k - 1) % n_v, k % n_v})
        steps_arg = []
        for i in sorted(pick):
            xa, xb = P[i][0], P[(i + 1) % n_v][0]
            if xa != xb:
                f = 0.25 + 0.5 * rng_e.uniform()
                steps_arg.append(float(xa + f * (xb - xa)))
        if not steps_arg:
            return
        ctx.cls("vertices>256" if n_v > 256 else "vertices<=256")
    else:
        lo, hi = xs.min(), xs.max()
        steps_arg = [float(lo + f * (hi - lo)) for f in case["fracs"]]
    if sk in ("none", "int"):
        spacer = 0.0001 * (xs.max() - xs.min())
        expected_steps = np.linspace(xs.min() + spacer, xs.max() - spacer, endpoint=True, num=num)
    else:
        expected_steps = np.array(steps_arg, dtype=float)
    before = C.copy()
    try:
        got = calculate_design_conditions(cont, steps=steps_arg if not isinstance(steps_arg, list) else list(steps_arg), swap_axis=swap)
    except AssertionError as e:
        ctx.violation("raises:AssertionError", f"contour={case['contour']} vertices={len(P)} steps={sk}: assertion failed inside calculate_design_conditions (more than two intersections at one abscissa)")
        return
    except Exception as e:  # noqa: BLE001
        ctx.violation(f"raises:{type(e).__name__}", f"contour={case['contour']} vertices={len(P)} steps={sk}: {str(e)[:200]}")
        return
    if not np.array_equal(np.asarray(cont.coordinates, dtype=float), before):
        ctx.violation("contour_mutated", "contour.coordinates changed")
    got = np.asarray(got, dtype=float)
    # reference rows
    exp_rows = []
    many = False
    skipped = False
    for a in expected_steps:
        cr = exact_crossings_fast(P, float(a))
        if cr is None:
            skipped = True
            exp_rows.append(None)
            continue
        if len(cr) >= 4:
            many = True
        if cr:
            exp_rows.append((float(a), float(max(cr))))
    ctx.nontrivial(many or swap)
    if skipped:
        ctx.cls("abscissa_on_vertex_skipped")
        return
    exp = np.array(exp_rows, dtype=float).reshape(-1, 2)
    tag = f"contour={case['contour']} vertices={len(P)} swap={swap} steps={sk} requested={np.round(expected_steps, 6).tolist()[:8]}"
    if got.size == 0:
        got = got.reshape(0, 2)
    if got.ndim != 2 or got.shape[1] != 2:
        ctx.violation("shape", f"{tag}: result shape {got.shape}")
        return
    if len(got) != len(exp):
        gx = set(np.round(got[:, 0], 9).tolist())
        missing = [r for r in exp.tolist() if round(r[0], 9) not in gx]
        sign = "nonpositive_ordinates" if ys.max() <= 0 else "other"
        ctx.violation(f"row_count:{sign}", f"{tag}: {len(got)} design conditions, expected {len(exp)}; e.g. missing {missing[:2]} (ordinates range [{ys.min()!r},{ys.max()!r}])")
        return
    tol = 1e-9 * ext
    if len(exp):
        if np.any(np.abs(got[:, 0] - exp[:, 0]) > tol):
            i = int(np.argmax(np.abs(got[:, 0] - exp[:, 0])))
            ctx.violation("abscissa", f"{tag}: row {i} abscissa {got[i, 0]!r}, requested {exp[i, 0]!r}")
            return
        dev = np.abs(got[:, 1] - exp[:, 1])
        if np.any(dev > tol):
            i = int(np.argmax(dev))
            cr = sorted(float(v) for v in exact_crossings(P, float(exp[i, 0])))
            ctx.violation("ordinate_not_top", f"{tag}: at x={exp[i, 0]!r} returned y={got[i, 1]!r}; the polygon crosses there at {cr}, top ordinate {exp[i, 1]!r}")
            return


@st.composite
def strat_design(draw, tier):
    contour = draw(st.sampled_from(["polygon", "polygon", "polygon", "IFORM", "ISORM", "DS"]))
    case = dict(contour=contour, swap_axis=draw(st.booleans()), seed=draw(st.integers(0, 2**31 - 1)))
    sk = draw(st.sampled_from(["none", "int", "list", "list"]))
    case["steps_kind"] = sk
    if sk == "int":
        case["n_steps"] = draw(st.integers(1, 40))
    if sk == "list":
        # fractions of the x-range; some outside; irrational-looking values so that they never equal a vertex abscissa
        case["fracs"] = draw(st.lists(st.floats(-0.3, 1.3).map(lambda f: round(f, 5) + 1.234567e-7), min_size=1, max_size=12))
    if contour == "polygon":
        case["m"] = draw(st.integers(5, 60))
        case["noise"] = draw(st.sampled_from([0.0, 0.2, 0.6, 0.6]))
        sign = draw(st.sampled_from(["pos", "pos", "neg", "mixed"]))
        sx, sy = draw(st.floats(0.5, 20)), draw(st.floats(0.5, 20))
        cy = {"pos": 2.0 * sy + 1, "neg": -2.0 * sy - 1, "mixed": 0.3 * sy}[sign]
        case["centre"] = [draw(st.floats(-5, 30)), float(cy)]
        case["scale"] = [sx, sy]
    else:
        leaf = draw(st.sampled_from(["pos", "pos", "normal_neg"]))
        if leaf == "pos":
            spec = draw(models.model_spec(n_dims=(2,), allow_scipy=False, leaf_families=["Weibull", "LogNormal", "ExponentiatedWeibull", "GeneralizedGamma"]))
        else:
            spec = draw(models.model_spec(n_dims=(2,), allow_scipy=False, leaf_families=["Normal"], require_conditional=False))
            if spec[1].get("conditional_on") is None:
                spec[1] = dict(family="Normal", params=dict(mu=draw(st.floats(-30, -8)), sigma=draw(st.floats(0.3, 2.0))))
        case["model"] = spec
        case["alpha"] = float(10.0 ** draw(st.floats(-5, -1)))
        case["n_points"] = draw(st.integers(8, 120))
        case["n_sample"] = draw(st.integers(2000, 20000))
        case["deg_step"] = draw(st.sampled_from([2, 5, 10, 15]))
    return case


@st.composite
def strat_design_large(draw, tier):
    """long contours (hundreds of vertices, as IFORMContour(n_points=720) gives) probed inside individual edges"""
    contour = draw(st.sampled_from(["polygon", "polygon", "IFORM"]))
    case = dict(contour=contour, swap_axis=draw(st.booleans()), seed=draw(st.integers(0, 2**31 - 1)), steps_kind="edges")
    if contour == "polygon":
        case["m"] = draw(st.one_of(st.integers(100, 1500), st.sampled_from([255, 256, 257, 258, 511, 512, 513, 720, 1024, 1025])))
        case["noise"] = draw(st.sampled_from([0.0, 0.0, 0.2]))
        sign = draw(st.sampled_from(["pos", "pos", "neg", "mixed"]))
        sx, sy = draw(st.floats(0.5, 20)), draw(st.floats(0.5, 20))
        cy = {"pos": 2.0 * sy + 1, "neg": -2.0 * sy - 1, "mixed": 0.3 * sy}[sign]
        case["centre"] = [draw(st.floats(-5, 30)), float(cy)]
        case["scale"] = [sx, sy]
    else:
        case["model"] = draw(models.model_spec(n_dims=(2,), allow_scipy=False, leaf_families=["Weibull", "LogNormal", "ExponentiatedWeibull", "GeneralizedGamma"]))
        case["alpha"] = float(10.0 ** draw(st.floats(-4, -1)))
        case["n_points"] = draw(st.sampled_from([257, 360, 500, 513, 720, 1000]))
    return case


# -------------------------------------------------------------------- part intersection
def seg_intersection(p0, p1, q0, q1):
    """exact intersection point of two closed segments in general position, or None"""
    x1, y1, x2, y2 = map(Fr, (p0[0], p0[1], p1[0], p1[1]))
    x3, y3, x4, y4 = map(Fr, (q0[0], q0[1], q1[0], q1[1]))
    den = (x1 - x2) * (y3 - y4) - (y1 - y2) * (x3 - x4)
    if den == 0:
        return None
    t = ((x1 - x3) * (y3 - y4) - (y1 - y3) * (x3 - x4)) / den
    u = -((x1 - x2) * (y1 - y3) - (y1 - y2) * (x1 - x3)) / den
    if 0 <= t <= 1 and 0 <= u <= 1:
        return (x1 + t * (x2 - x1), y1 + t * (y2 - y1), t, u)
    return None


def make_polyline(seed, m, kind):
    rng = np.random.default_rng(seed)
    if kind == "walk":
        pts = np.cumsum(rng.standard_normal((m + 1, 2)), axis=0)
    elif kind == "graph":
        x = np.sort(rng.uniform(0, 10, m + 1))
        pts = np.c_[x, rng.uniform(-3, 3, m + 1)]
    else:
        t = np.linspace(0, 2 * np.pi, m + 1)
        pts = np.c_[3 * np.cos(t) + 0.3 * rng.standard_normal(m + 1), 2 * np.sin(t) + 0.3 * rng.standard_normal(m + 1)]
    return np.round(pts, 5) + rng.uniform(0, 1e-6, size=pts.shape)


def check_intersection(case, ctx):
    from virocon._intersection import intersection

    A = make_polyline(case["seed_a"], case["m_a"], case["kind_a"])
    B = make_polyline(case["seed_b"], case["m_b"], case["kind_b"]) + np.array(case["shift"])
    ctx.cls(f"{case['kind_a']}x{case['kind_b']}")
    exp = []
    degenerate = False
    # candidate pairs: bounding boxes overlap (float comparisons are exact); only those go through Fractions
    a_lo, a_hi = np.minimum(A[:-1], A[1:]), np.maximum(A[:-1], A[1:])
    b_lo, b_hi = np.minimum(B[:-1], B[1:]), np.maximum(B[:-1], B[1:])
    cand = np.all(a_lo[:, None, :] <= b_hi[None, :, :], axis=2) & np.all(b_lo[None, :, :] <= a_hi[:, None, :], axis=2)
    ctx.cls("segments>256" if max(len(A), len(B)) - 1 > 256 else "segments<=256")
    for i, j in zip(*np.nonzero(cand)):
        if True:
            r = seg_intersection(A[i], A[i + 1], B[j], B[j + 1])
            if r is not None:
                if r[2] in (0, 1) or r[3] in (0, 1):
                    degenerate = True
                exp.append((float(r[0]), float(r[1])))
    if degenerate:
        return
    ctx.nontrivial(len(exp) >= 1)
    try:
        gx, gy = intersection(A[:, 0], A[:, 1], B[:, 0], B[:, 1])
    except Exception as e:  # noqa: BLE001
        ctx.violation(f"intersection:raises:{type(e).__name__}", str(e)[:200])
        return
    got = sorted(zip(np.asarray(gx, dtype=float).tolist(), np.asarray(gy, dtype=float).tolist()))
    exp = sorted(exp)
    ext = max(np.ptp(A), np.ptp(B), 1.0)
    tol = 1e-8 * ext
    ok = len(got) == len(exp) and all(abs(g[0] - e[0]) <= tol and abs(g[1] - e[1]) <= tol for g, e in zip(got, exp))
    if not ok:
        # a sorted zip can mis-pair nearly equal abscissae: greedy nearest matching
        rem = list(exp)
        ok = len(got) == len(exp)
        if ok:
            for g in got:
                d = [math.hypot(g[0] - e[0], g[1] - e[1]) for e in rem]
                k = int(np.argmin(d)) if d else -1
                if k < 0 or d[k] > tol * 2:
                    ok = False
                    break
                rem.pop(k)
    if not ok:
        ctx.violation("intersection:set", f"seeds=({case['seed_a']},{case['seed_b']}) segments=({case['m_a']},{case['m_b']}): returned {len(got)} points {got[:3]}, exact crossings {len(exp)} {exp[:3]}")


def strat_intersection(tier):
    return st.builds(
        lambda sa, sb, ma, mb, ka, kb, sh: dict(seed_a=sa, seed_b=sb, m_a=ma, m_b=mb, kind_a=ka, kind_b=kb, shift=sh),
        st.integers(0, 2**31 - 1), st.integers(0, 2**31 - 1), st.integers(2, 40), st.integers(2, 40),
        st.sampled_from(["walk", "graph", "loop"]), st.sampled_from(["walk", "graph", "loop"]),
        st.lists(st.floats(-2, 2).map(lambda v: round(v, 3)), min_size=2, max_size=2),
    )


def strat_intersection_large(tier):
    return st.builds(
        lambda sa, sb, ma, mb, ka, kb, sh, flip: dict(seed_a=sa, seed_b=sb, m_a=mb if flip else ma, m_b=ma if flip else mb, kind_a=kb if flip else ka, kind_b=ka if flip else kb, shift=sh),
        st.integers(0, 2**31 - 1), st.integers(0, 2**31 - 1),
        st.one_of(st.integers(200, 1500), st.sampled_from([255, 256, 257, 511, 512, 513, 1024, 1025])), st.integers(2, 40),
        st.sampled_from(["graph", "loop"]), st.sampled_from(["walk", "graph", "loop"]),
        st.lists(st.floats(-2, 2).map(lambda v: round(v, 3)), min_size=2, max_size=2), st.booleans(),
    )


PARTS = [
    Part("design", check_design, lambda tier: strat_design(tier), quick=2000, thorough=50000, min_nontrivial_frac=0.2),
    Part("intersection", check_intersection, strat_intersection, quick=1500, thorough=30000, min_nontrivial_frac=0.25),
    Part("design_large", check_design, lambda tier: strat_design_large(tier), quick=640, thorough=12000, shrink_quick=False),
    Part("intersection_large", check_intersection, strat_intersection_large, quick=640, thorough=12000, shrink_quick=False),
]
