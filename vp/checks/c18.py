"""C18 - ill-formed model, fit and contour specifications are rejected, not computed."""

import copy
import itertools
import math
import warnings

import numpy as np

from vp.runner import Part
from vp.gen import depshapes
from vp import build

ID = "C18"
LEVEL = "fault_enumeration"
EXHAUSTIVE = True
RULE = (
    "Fault enumeration: every valid base description (n_dim 1-4, 9 conditional_on structures, each of the 7 shipped families as carrier of the "
    "affected variable) x every catalogue entry (missing distribution; conditional without parameters; unknown key; unknown parameter name; "
    "parameter both fixed and dependent (also when fixed at the legitimate value 0); parameter neither; first variable conditional; conditional_on = self / later / non-existent / negative / "
    "non-integer; data with n_dim+-1 columns; fit_descriptions of wrong length / without method / unknown method; unknown EW weight keyword / "
    "non-iterable weights; HDC limits of wrong length, limit entries of length 1 / 3 / scalar, deltas of wrong length; NaN / inf evaluation points; "
    "1-D and 3-D models for the 2-D-only contours; non-model for IFORM; unknown slicer keyword; unknown / non-callable reference; too few intervals) "
    "x every position (dimension) where it can be injected, singly (exhaustive) and in pairs within a stage (exhaustive in the thorough tier, every "
    "7th pair in the quick tier). Oracle: the call at which the malformed item is supplied (or its first use for lazily interpreted options) raises "
    "and no result object is produced; the unmodified description is accepted (control). Non-trivial: every injected case; distinct = distinct "
    "(structure, carrier, fault, position) cell."
)
ASSUMPTIONS = [
    "the documented exception type is recorded as a note when it differs; the property only asks for rejection",
    "carrier parameter values are fixed plausible values; the enumeration is over structure x carrier x fault x position",
]

STRUCTURES = {
    1: [[None]],
    2: [[None, 0], [None, None]],
    3: [[None, 0, 1], [None, 0, 0], [None, None, 1]],
    4: [[None, 0, 1, 2], [None, 0, 0, 0], [None, 0, None, 2]],
}
CARRIERS = ["Weibull", "LogNormal", "Normal", "ExponentiatedWeibull", "GeneralizedGamma", "VonMises", "LogNormalNormFit"]
PARAMS = {
    "Weibull": dict(alpha=2.0, beta=1.5, gamma=0.2),
    "LogNormal": dict(mu=0.8, sigma=0.4),
    "Normal": dict(mu=5.0, sigma=1.2),
    "ExponentiatedWeibull": dict(alpha=1.5, beta=1.3, delta=2.0),
    "GeneralizedGamma": dict(m=2.0, c=1.4, lambda_=0.6),
    "VonMises": dict(kappa=2.0, mu=0.3),
    "LogNormalNormFit": dict(mu_norm=3.0, sigma_norm=1.0),
}


def base_descriptions(structure, carrier, pos):
    """valid dist_descriptions; the level `pos` uses the carrier family"""
    from virocon import DependenceFunction, WidthOfIntervalSlicer

    descs = []
    for i, c in enumerate(structure):
        famname = carrier if i == pos else ("Weibull" if c is None else "LogNormal")
        if famname == "VonMises" and i in [x for x in structure if x is not None]:
            famname = "Weibull"  # a conditioner must be non-negative for the base to be valid
        if c is None:
            d = {"distribution": build.dist(famname, PARAMS[famname])}
            if i in structure:
                d["intervals"] = WidthOfIntervalSlicer(width=0.5, min_n_points=5)
        else:
            names = list(PARAMS[famname].keys())
            dep_name = names[0]
            fixed = {k: PARAMS[famname][k] for k in names[1:]}
            fn = depshapes.python_callable("linear2")
            df = DependenceFunction(fn, bounds=[(None, None), (None, None)])
            df.parameters = {"a": PARAMS[famname][dep_name], "b": 0.01}
            d = {"distribution": build.dist(famname, None, fixed), "conditional_on": c, "parameters": {dep_name: df}}
            if i in structure:
                d["intervals"] = WidthOfIntervalSlicer(width=0.5, min_n_points=5)
        descs.append(d)
    return descs


def sample_data(structure, n=400, seed=1):
    rng = np.random.default_rng(seed)
    return np.abs(rng.lognormal(0.5, 0.4, size=(n, len(structure)))) + 0.1


# ---- fault catalogue -----------------------------------------------------------------
# each fault: (name, stage, applicable(structure, pos) -> bool, apply(ctxdict, pos))
def _dep_fn(a=1.0):
    from virocon import DependenceFunction

    df = DependenceFunction(depshapes.python_callable("linear2"))
    df.parameters = {"a": a, "b": 0.0}
    return df


def f_missing_distribution(S, pos):
    del S["descs"][pos]["distribution"]


def f_cond_without_parameters(S, pos):
    S["descs"][pos].pop("parameters", None)
    S["descs"][pos]["conditional_on"] = S["descs"][pos].get("conditional_on", 0 if pos > 0 else 0)


def f_unknown_key(S, pos):
    S["descs"][pos]["interval"] = None


def f_unknown_param(S, pos):
    S["descs"][pos]["parameters"]["not_a_parameter"] = _dep_fn()


ZERO_OK = {"LogNormal": "mu", "Normal": "mu", "VonMises": "mu", "Weibull": "gamma"}  # parameters that may legitimately be fixed at 0


def f_both_fixed_and_dependent(S, pos):
    d = S["descs"][pos]
    fam = S["families"][pos]
    if S.get("variant") == "zero":
        # the doubly defined parameter is fixed at the legitimate value 0 (or 0.0)
        zname = ZERO_OK[fam]
        names = list(PARAMS[fam].keys())
        dep_names = [k for k in names if k != zname][:1]
        fixed = {k: PARAMS[fam][k] for k in names if k not in dep_names and k != zname}
        fixed[zname] = 0 if pos % 2 else 0.0
        d["distribution"] = build.dist(fam, None, fixed)
        d["parameters"] = {dep_names[0]: _dep_fn(PARAMS[fam][dep_names[0]]), zname: _dep_fn(0.5)}
        return
    fixed_name = next(k for k in d["distribution"].parameters if k not in d["parameters"])
    d["parameters"][fixed_name] = _dep_fn(float(d["distribution"].parameters[fixed_name]))


def f_neither(S, pos):
    d = S["descs"][pos]
    fam = S["families"][pos]
    names = list(PARAMS[fam].keys())
    # rebuild the template with one parameter neither fixed nor dependent
    dep_name = next(iter(d["parameters"]))
    free = next(k for k in names if k != dep_name)
    fixed = {k: PARAMS[fam][k] for k in names if k not in (dep_name, free)}
    d["distribution"] = build.dist(fam, None, fixed)


def f_first_conditional(S, pos):
    d = S["descs"][0]
    fam = S["families"][0]
    names = list(PARAMS[fam].keys())
    d["distribution"] = build.dist(fam, None, {k: PARAMS[fam][k] for k in names[1:]})
    d["conditional_on"] = S["variant"]
    d["parameters"] = {names[0]: _dep_fn(PARAMS[fam][names[0]])}


def f_cond_on(S, pos):
    S["descs"][pos]["conditional_on"] = S["variant_value"]


def f_data_columns(S, pos):
    k = S["variant"]
    data = S["data"]
    S["data"] = data[:, :-1] if k == -1 else np.c_[data, data[:, 0]]


def f_data_flat(S, pos):
    """one-dimensional data for a model of two or more variables (a single column / Series, or the flattened matrix),
    of a length that is a multiple of n_dim"""
    data = np.asarray(S["data"])
    n_dim = data.shape[1]
    m = (len(data) // n_dim) * n_dim
    S["data"] = data[:m, 0].copy() if S["variant"] == "one_column" else data[:m].ravel().copy()


def f_fitdesc_length(S, pos):
    n = len(S["descs"])
    S["fit_descriptions"] = [None] * (n + S["variant"])


def f_fitdesc_no_method(S, pos):
    fd = [None] * len(S["descs"])
    fd[pos] = {"weights": None}
    S["fit_descriptions"] = fd


def f_fitdesc_unknown_method(S, pos):
    fd = [None] * len(S["descs"])
    fd[pos] = {"method": S["variant"]}
    S["fit_descriptions"] = fd


def f_ew_weights(S, pos):
    fd = [None] * len(S["descs"])
    fd[pos] = {"method": "wlsq", "weights": S["variant_value"]}
    S["fit_descriptions"] = fd


FAULTS = []


def reg(name, stage, applicable, apply, variants=(None,)):
    FAULTS.append(dict(name=name, stage=stage, applicable=applicable, apply=apply, variants=list(variants)))


reg("missing_distribution", "model", lambda st, p, fam: True, f_missing_distribution)
reg("conditional_without_parameters", "model", lambda st, p, fam: st[p] is not None, f_cond_without_parameters)
reg("unknown_key", "model", lambda st, p, fam: True, f_unknown_key)
reg("unknown_parameter_name", "model", lambda st, p, fam: st[p] is not None, f_unknown_param)
reg("both_fixed_and_dependent", "model", lambda st, p, fam: st[p] is not None, f_both_fixed_and_dependent, variants=["nonzero", "zero"])
reg("parameter_neither", "model", lambda st, p, fam: st[p] is not None and len(PARAMS[fam]) >= 2, f_neither)
reg("first_variable_conditional", "model", lambda st, p, fam: p == 0, f_first_conditional, variants=[0, 1])
reg("conditional_on", "model", lambda st, p, fam: st[p] is not None, f_cond_on, variants=["self", "later", "nonexistent", "negative", "float", "str"])
reg("data_columns", "fit", lambda st, p, fam: p == 0, f_data_columns, variants=[-1, +1])
reg("data_one_dimensional", "fit", lambda st, p, fam: p == 0 and len(st) >= 2, f_data_flat, variants=["one_column", "flattened"])
reg("fit_descriptions_length", "fit", lambda st, p, fam: p == 0, f_fitdesc_length, variants=[-1, +1])
reg("fit_description_without_method", "fit", lambda st, p, fam: True, f_fitdesc_no_method)
reg("unknown_fit_method", "fit", lambda st, p, fam: True, f_fitdesc_unknown_method, variants=["mlee", "least_squares", ""])
reg("ew_weights", "fit", lambda st, p, fam: fam == "ExponentiatedWeibull" and st[p] is None, f_ew_weights, variants=["quartic", "number", "none_str"])


def resolve_variant(fault, variant, structure, pos):
    n = len(structure)
    if fault["name"] == "conditional_on":
        val = {"self": pos, "later": pos + 1 if pos + 1 < n else None, "nonexistent": n + 1, "negative": -1, "float": 0.5, "str": "0"}[variant]
        return val
    if fault["name"] == "ew_weights":
        return {"quartic": "quartic", "number": 3.5, "none_str": "None"}[variant]
    return variant


def build_state(structure, carrier, pos):
    descs = base_descriptions(structure, carrier, pos)
    fams = []
    for i, c in enumerate(structure):
        f = carrier if i == pos else ("Weibull" if c is None else "LogNormal")
        if f == "VonMises" and i in [x for x in structure if x is not None]:
            f = "Weibull"
        fams.append(f)
    return dict(descs=descs, families=fams, data=sample_data(structure), fit_descriptions=None)


def run_stage(S, stage):
    """returns ('raised', exc) or ('result', obj)"""
    from virocon import GlobalHierarchicalModel

    try:
        with warnings.catch_warnings():
            warnings.simplefilter("ignore")
            model = GlobalHierarchicalModel(S["descs"])
            if stage == "model":
                return "result", model
            model.fit(S["data"], S["fit_descriptions"])
            return "result", model
    except Exception as e:  # noqa: BLE001
        return "raised", e


def check_model_fault(case, ctx):
    structure, carrier, pos = case["structure"], case["carrier"], case["pos"]
    faults = case["faults"]  # list of [fault_index, variant, pos]
    label = "+".join(f"{FAULTS[f[0]]['name']}" + (f":{f[1]}" if f[1] is not None else "") + f"@{f[2]}" for f in faults)
    ctx.cls(f"n_dim={len(structure)}", "pair" if len(faults) > 1 else "single")
    for f in faults:
        ctx.cls(f"fault={FAULTS[f[0]]['name']}")
    ctx.nontrivial()
    # control: the unmodified description is accepted
    S0 = build_state(structure, carrier, pos)
    stage = "fit" if any(FAULTS[f[0]]["stage"] == "fit" for f in faults) else "model"
    if case.get("control"):
        out, obj = run_stage(S0, "model")
        if out != "result":
            ctx.violation(f"control_rejected:model:{carrier}", f"structure={structure} carrier={carrier}@{pos}: valid description rejected: {type(obj).__name__}: {obj}")
        out, obj = run_stage(build_state(structure, carrier, pos), "fit")
        if out != "result" and not isinstance(obj, RuntimeError):
            ctx.violation(f"control_rejected:fit:{carrier}", f"structure={structure} carrier={carrier}@{pos}: valid fit rejected: {type(obj).__name__}: {obj}")
        return
    S = build_state(structure, carrier, pos)
    for fi, variant, p in faults:
        fault = FAULTS[fi]
        S["variant"] = variant
        S["variant_value"] = resolve_variant(fault, variant, structure, p)
        fault["apply"](S, p)
    out, obj = run_stage(S, stage)
    if out == "result":
        kinds = "+".join(sorted({FAULTS[f[0]]["name"] + (f":{f[1]}" if FAULTS[f[0]]["name"] in ("conditional_on", "ew_weights", "unknown_fit_method", "both_fixed_and_dependent") else "") for f in faults}))
        ctx.violation(f"accepted:{kinds}", f"structure={structure} carrier={carrier} faults={label}: no exception was raised; {stage} produced {type(obj).__name__}")
    else:
        documented = (ValueError, TypeError, RuntimeError, NotImplementedError, KeyError)
        if not isinstance(obj, documented):
            ctx.note(f"{label}: rejected with undocumented {type(obj).__name__}")


def enum_model_faults(tier, shard, nshards):
    idx = 0
    for n, structs in STRUCTURES.items():
        for st_ in structs:
            for pos in range(n):
                for carrier in CARRIERS:
                    if st_[pos] is not None and carrier == "LogNormalNormFit":
                        pass
                    # control
                    if idx % nshards == shard:
                        yield dict(structure=st_, carrier=carrier, pos=pos, faults=[], control=True)
                    idx += 1
                    singles = []
                    for fi, fault in enumerate(FAULTS):
                        if not fault["applicable"](st_, pos, carrier):
                            continue
                        for v in fault["variants"]:
                            if fault["name"] == "conditional_on" and resolve_variant(fault, v, st_, pos) is None:
                                continue
                            if fault["name"] == "both_fixed_and_dependent" and v == "zero" and carrier not in ZERO_OK:
                                continue
                            singles.append([fi, v, pos])
                    for s in singles:
                        if idx % nshards == shard:
                            yield dict(structure=st_, carrier=carrier, pos=pos, faults=[s])
                        idx += 1
                    # pairs: second fault at every position (same stage), carrier only at pos
                    k = 0
                    for s in singles:
                        for pos2 in range(n):
                            fam2 = carrier if pos2 == pos else ("Weibull" if st_[pos2] is None else "LogNormal")
                            for fi2, fault2 in enumerate(FAULTS):
                                if fault2["stage"] != FAULTS[s[0]]["stage"] or not fault2["applicable"](st_, pos2, fam2):
                                    continue
                                if pos2 == pos and fi2 <= s[0]:
                                    continue
                                if fault2["name"] in ("first_variable_conditional", "data_columns", "fit_descriptions_length") and FAULTS[s[0]]["name"] == fault2["name"]:
                                    continue
                                if {fault2["name"], FAULTS[s[0]]["name"]} == {"data_columns", "data_one_dimensional"} or (fault2["name"] == "data_one_dimensional" and FAULTS[s[0]]["name"] == "data_one_dimensional"):
                                    continue  # both rewrite the data matrix
                                if {fault2["name"], FAULTS[s[0]]["name"]} & {"fit_descriptions_length"} and {fault2["name"], FAULTS[s[0]]["name"]} & {"fit_description_without_method", "unknown_fit_method", "ew_weights"}:
                                    continue  # both write fit_descriptions
                                if fault2["stage"] == "fit" and FAULTS[s[0]]["stage"] == "fit" and fault2["name"] not in ("data_columns", "data_one_dimensional") and FAULTS[s[0]]["name"] not in ("data_columns", "data_one_dimensional") and pos2 == pos:
                                    continue
                                if pos2 == pos and {fault2["name"], FAULTS[s[0]]["name"]} & {"missing_distribution", "parameter_neither", "first_variable_conditional", "conditional_without_parameters"}:
                                    continue  # would operate on keys the other fault removed
                                v2 = fault2["variants"][0]
                                if fault2["name"] == "conditional_on":
                                    v2 = "self"
                                k += 1
                                if tier == "quick" and k % 7:
                                    continue
                                if idx % nshards == shard:
                                    yield dict(structure=st_, carrier=carrier, pos=pos, faults=[s, [fi2, v2, pos2]])
                                idx += 1


# ------------------------------------------------------------- other entry points
def check_other(case, ctx):
    from virocon import (
        GlobalHierarchicalModel, HighestDensityContour, IFORMContour, DirectSamplingContour, AndContour, OrContour,
        WidthOfIntervalSlicer, NumberOfIntervalsSlicer, PointsPerIntervalSlicer,
    )

    kind = case["kind"]
    ctx.cls(f"kind={kind}")
    ctx.nontrivial()
    structure = case.get("structure", [None, 0])
    carrier = case.get("carrier", "Weibull")
    S = build_state(structure, carrier, 0)
    with warnings.catch_warnings():
        warnings.simplefilter("ignore")
        model = GlobalHierarchicalModel(S["descs"])
        n = len(structure)

        def expect_raise(label, fn, control=None):
            try:
                obj = fn()
            except Exception as e:  # noqa: BLE001
                if not isinstance(e, (ValueError, TypeError, RuntimeError, NotImplementedError)):
                    ctx.note(f"{label}: rejected with undocumented {type(e).__name__}")
                return
            ctx.violation(f"accepted:{label}", f"structure={structure} carrier={carrier} variant={case.get('variant')}: no exception; produced {type(obj).__name__}")

        v = case.get("variant")
        lim = [(0.0, 6.0)] * n
        if kind == "hdc_limits_length":
            expect_raise(kind, lambda: HighestDensityContour(model, 0.1, limits=lim[: n + v] if v < 0 else lim + [(0.0, 6.0)] * v, deltas=0.5))
        elif kind == "hdc_limit_entry":
            bad = {"len1": (6.0,), "len3": (0.0, 3.0, 6.0), "scalar": 6.0}[v]
            L = list(lim)
            L[case["pos"] % n] = bad
            expect_raise(f"{kind}:{v}", lambda: HighestDensityContour(model, 0.1, limits=L, deltas=0.5))
        elif kind == "hdc_deltas_length":
            d = [0.5] * (n + v)
            expect_raise(kind, lambda: HighestDensityContour(model, 0.1, limits=lim, deltas=d))
        elif kind == "hdc_control":
            try:
                HighestDensityContour(model, 0.1, limits=lim, deltas=[0.5] * n)
            except Exception as e:  # noqa: BLE001
                ctx.violation("control_rejected:hdc", f"structure={structure} carrier={carrier}: {type(e).__name__}: {e}")
        elif kind == "nonfinite_point":
            x = np.full((2, n), 1.5)
            x[1, case["pos"] % n] = {"nan": np.nan, "inf": np.inf, "-inf": -np.inf}[v]
            expect_raise(f"{kind}:pdf:{v}", lambda: model.pdf(x))
            if n <= 2:
                expect_raise(f"{kind}:cdf:{v}", lambda: model.cdf(x[1]))
        elif kind == "contour_2d_only":
            cls = {"ds": DirectSamplingContour, "and": AndContour, "or": OrContour}[v]
            sample = np.abs(np.random.default_rng(1).lognormal(0.5, 0.4, size=(500, n))) + 0.1
            expect_raise(f"{kind}:{v}:{n}d", lambda: cls(model, 0.1, sample=sample))
        elif kind == "iform_non_model":
            obj = {"dist": build.dist("Weibull", PARAMS["Weibull"]), "dict": {"n_dim": 2}, "none": None, "descs": S["descs"]}[v]
            expect_raise(f"{kind}:{v}", lambda: IFORMContour(obj, 0.1))
        elif kind == "slicer_unknown_kwarg":
            mk = {"width": lambda: WidthOfIntervalSlicer(0.5, min_points=5), "number": lambda: NumberOfIntervalsSlicer(5, minimum_n_points=3), "points": lambda: PointsPerIntervalSlicer(20, last_ful=True)}[v]
            expect_raise(f"{kind}:{v}", mk)
        elif kind == "slicer_reference":
            data = np.linspace(0.1, 5, 200)
            ref = {"unknown_str": "middle", "number": 3, "none": None}[case["ref"]]
            mk = {"width": lambda: WidthOfIntervalSlicer(0.5, reference=ref, min_n_points=1).slice_(data), "number": lambda: NumberOfIntervalsSlicer(5, reference=ref, min_n_points=1).slice_(data)}[v]
            expect_raise(f"{kind}:{v}:{case['ref']}", mk)
        elif kind == "too_few_intervals":
            data = np.linspace(0.1, 5, 60)
            mk = {
                "width": lambda: WidthOfIntervalSlicer(0.5, min_n_points=30, min_n_intervals=3).slice_(data),
                "number": lambda: NumberOfIntervalsSlicer(4, min_n_points=40, min_n_intervals=3).slice_(data),
                "points": lambda: PointsPerIntervalSlicer(25, min_n_intervals=3).slice_(data),
                "fit": lambda: GlobalHierarchicalModel(base_descriptions([None, 0], "Weibull", 0)).fit(sample_data([None, 0], n=12)),
            }[v]
            expect_raise(f"{kind}:{v}", mk)
        else:
            raise ValueError(kind)


def enum_other(tier, shard, nshards):
    cases = []
    for n, structs in STRUCTURES.items():
        for st_ in structs:
            for carrier in ["Weibull", "LogNormal", "ExponentiatedWeibull"]:
                if n >= 2:
                    for v in (-1, 1):
                        cases.append(dict(kind="hdc_limits_length", structure=st_, carrier=carrier, variant=v))
                        cases.append(dict(kind="hdc_deltas_length", structure=st_, carrier=carrier, variant=v))
                    for pos in range(n):
                        for v in ("len1", "len3", "scalar"):
                            cases.append(dict(kind="hdc_limit_entry", structure=st_, carrier=carrier, variant=v, pos=pos))
                    if n <= 3:
                        cases.append(dict(kind="hdc_control", structure=st_, carrier=carrier))
                for pos in range(n):
                    for v in ("nan", "inf", "-inf"):
                        cases.append(dict(kind="nonfinite_point", structure=st_, carrier=carrier, variant=v, pos=pos))
                if n != 2:
                    for v in ("ds", "and", "or"):
                        cases.append(dict(kind="contour_2d_only", structure=st_, carrier=carrier, variant=v))
    for v in ("dist", "dict", "none", "descs"):
        cases.append(dict(kind="iform_non_model", variant=v))
    for v in ("width", "number", "points"):
        cases.append(dict(kind="slicer_unknown_kwarg", variant=v))
    for v in ("width", "number"):
        for ref in ("unknown_str", "number", "none"):
            cases.append(dict(kind="slicer_reference", variant=v, ref=ref))
    for v in ("width", "number", "points", "fit"):
        cases.append(dict(kind="too_few_intervals", variant=v))
    for i, c in enumerate(cases):
        if i % nshards == shard:
            yield c


PARTS = [
    Part("model_fit", check_model_fault, enumerate=enum_model_faults, quick=1, thorough=1),
    Part("other", check_other, enumerate=enum_other, quick=1, thorough=1),
]
