"""C19 - evaluation is pure and repeatable; predefined models share no state."""

import copy
import os
import shutil
import tempfile
import warnings

import numpy as np
from hypothesis import strategies as st

from vp.runner import Part
from vp.gen import models
from vp.oracles import refmodel, snapshot as snap
from vp import build

ID = "C19"
LEVEL = "exploration"
RULE = (
    "Model-based history generation: Hypothesis draws a pool of live models (a generated 2-D model, a generated 3-D model, and a model built "
    "from one of the six predefined getters, optionally fitted first) and a history of up to 6 (quick) / 10 (thorough) operations with generated "
    "arguments out of: pdf, cdf, icdf, marginal_pdf/cdf/icdf, seeded draw_sample, IFORM, ISORM, HDC (small grid), DirectSampling / And / Or with a "
    "supplied sample, calculate_design_conditions, plot_2D_contour / plot_2D_isodensity (Agg), save_contour_coordinates, 'fit another model built "
    "from a fresh getter call', 'fit a ConditionalDistribution and look at its template'. Invariants after every step: the deep structural snapshot "
    "of every model that is not being fitted is unchanged; caller-owned arrays (passed read-only where the API documents array_like) are bit-identical; "
    "a deterministic operation executed twice returns identical results; a template's parameters survive ConditionalDistribution.fit; the object "
    "graphs of two getter calls share no mutable node and fitting one leaves the other's snapshot unchanged. Non-trivial: a history that contains a "
    "fit or a contour between evaluations of another model."
)
ASSUMPTIONS = [
    "histories of bounded length (<= 6 quick / <= 10 thorough)",
    "caller arrays are handed over with flags.writeable=False: an in-place write raises and is reported as a violation",
    "Monte-Carlo operations on the global RNG are made deterministic by seeding numpy's global RNG immediately before the call",
]

GETTERS = ["get_DNVGL_Hs_Tz", "get_DNVGL_Hs_U", "get_OMAE2020_Hs_Tz", "get_OMAE2020_V_Hs", "get_Windmeier_EW_Hs_S", "get_Nonzero_EW_Hs_S"]

EVAL_OPS = ["pdf", "icdf", "marginal_pdf", "marginal_cdf", "marginal_icdf", "draw_sample", "iform", "isorm", "hdc", "ds", "and", "or", "design", "plot_contour", "plot_isodensity", "save", "cdf"]


def predefined_model(name, set_params=True):
    import virocon
    from virocon import predefined

    out = getattr(predefined, name)()
    descs, fit_desc, semantics = out[0], out[1], out[2]
    model = virocon.GlobalHierarchicalModel(descs)
    if len(out) == 4:
        tr = out[3]
        model = virocon.TransformedModel(model, tr["transform"], tr["inverse"], tr["jacobian"], precision_factor=0.2, random_state=42)
    return model, descs, fit_desc, out


def synthetic_data(name, n, seed):
    rng = np.random.default_rng(seed)
    if name in ("get_DNVGL_Hs_Tz", "get_OMAE2020_Hs_Tz", "get_Windmeier_EW_Hs_S", "get_Nonzero_EW_Hs_S"):
        hs = 0.3 + 2.0 * rng.weibull(1.5, n)
        tz = np.exp(0.9 + 0.6 * hs**0.4 + (0.07 + 0.2 * np.exp(-0.3 * hs)) * rng.standard_normal(n))
        return np.c_[hs, tz]
    if name == "get_DNVGL_Hs_U":
        hs = 0.3 + 2.0 * rng.weibull(1.5, n)
        u = (3 + 4 * hs**0.8) * rng.weibull(2.5 + 0.3 * hs, n)
        return np.c_[hs, u]
    v = 1 + 9 * rng.weibull(2.0, n)
    hs = (0.3 + 0.08 * v**1.4) * rng.weibull(2.0 + 0.05 * v, n) + 0.05
    return np.c_[v, hs]


class Pool:
    def __init__(self, case):
        self.models = {}
        self.specs = {}
        self.models["A"] = build.model(case["spec2"])
        self.specs["A"] = case["spec2"]
        self.models["B"] = build.model(case["spec3"])
        self.specs["B"] = case["spec3"]
        m, descs, fd, raw = predefined_model(case["getter"])
        if case["prefit"] or True:
            with warnings.catch_warnings():
                warnings.simplefilter("ignore")
                m.fit(synthetic_data(case["getter"], 1500, case["seed"]), fd)
        self.models["P"] = m
        self.raw = raw

    def snapshots(self):
        return {k: snap.snapshot(m) for k, m in self.models.items()}


def ro(a):
    a = np.array(a, dtype=float)
    a.flags.writeable = False
    return a


def points_for(spec, us):
    U = np.clip(np.asarray(us, dtype=float), 1e-6, 1 - 1e-6)
    return refmodel.inverse_rosenblatt(spec, U)


def run_eval(op, key, pool, args, ctx, tmpdir, rep=0):
    """run one evaluation op on model `key`; returns a comparable result (or None); reports array mutation"""
    import virocon

    model = pool.models[key]
    is_t = type(model).__name__ == "TransformedModel"
    ghm = model.model if is_t else model
    n_dim = model.n_dim
    name = op["op"]
    res = None
    inputs = []

    def arr(a):
        r = ro(a)
        inputs.append((r, np.array(a, dtype=float)))
        return r

    seed = op["seed"]
    if key in ("A", "B"):
        X = points_for(pool.specs[key], [u[:n_dim] for u in op["us"]])
    else:
        X = np.abs(np.asarray([u[:n_dim] for u in op["us"]], dtype=float)) * np.array([6.0, 12.0])[:n_dim] + 0.3
    X = X[np.all(np.isfinite(X), axis=1)]
    if len(X) == 0:
        X = np.ones((1, n_dim))
    with warnings.catch_warnings():
        warnings.simplefilter("ignore")
        if name == "pdf":
            res = np.asarray(model.pdf(arr(X)))
        elif name == "cdf":
            if n_dim == 2 and not is_t:
                res = np.asarray(model.cdf(arr(X[:1] * 0.3)))
        elif name == "icdf":
            d0 = ghm.distributions[0]
            res = np.asarray(d0.icdf(arr([0.1, 0.5, 0.9])))
        elif name == "marginal_pdf":
            if not is_t:
                res = np.asarray(model.marginal_pdf(arr(X[:2, 0]), 0))
        elif name == "marginal_cdf":
            if not is_t:
                res = np.asarray(model.marginal_cdf(arr(X[:2, 0]), 0))
        elif name == "marginal_icdf":
            np.random.seed(seed % (2**32))  # Monte-Carlo for conditional / transformed variables (global RNG)
            if is_t and seed % 2 == 0:
                # the way IFORMContour calls it: with the seed the model was constructed with
                res = np.asarray(model.marginal_icdf(arr([0.2, 0.8]), op["seed"] % n_dim, model.precision_factor, random_state=model.random_state))
            else:
                res = np.asarray(model.marginal_icdf(arr([0.2, 0.8]), op["seed"] % n_dim))
        elif name == "draw_sample":
            if is_t:
                np.random.seed(seed % (2**32))
                res = np.asarray(model.draw_sample(50))
            else:
                res = np.asarray(model.draw_sample(50, random_state=seed))
        elif name in ("iform", "isorm"):
            if is_t and name == "isorm":
                return None
            cls = virocon.IFORMContour if name == "iform" else virocon.ISORMContour
            # (a seeded TransformedModel evaluates every contour point by Monte Carlo from model.random_state)
            c = cls(model, max(op["alpha"], 1e-3) if is_t else op["alpha"], n_points=5 if is_t else 12)
            res = np.asarray(c.coordinates)
        elif name == "hdc":
            if is_t or n_dim != 2:
                return None
            rng_ = refmodel.approx_range(pool.specs[key], 1e-3, 1 - op["alpha"] / 5) if key in pool.specs else [(0, 12), (0, 25)]
            lim = [(0.0, float(r[1])) for r in rng_]
            deltas_ = [l[1] / 25 for l in lim]
            # limits / deltas in the forms callers own: list of tuples, list of lists, ndarray - none may be written to
            form = seed % 3
            lim_arg = [tuple(l) for l in lim] if form == 0 else ([list(l) for l in lim] if form == 1 else np.array(lim, dtype=float))
            del_arg = list(deltas_) if form != 2 else np.array(deltas_, dtype=float)
            lim_before, del_before = copy.deepcopy(lim_arg), copy.deepcopy(del_arg)
            c = virocon.HighestDensityContour(model, op["alpha"], limits=lim_arg, deltas=del_arg)
            if repr(lim_arg) != repr(lim_before) or repr(del_arg) != repr(del_before):
                ctx.violation("input_mutated:hdc", f"limits {lim_before!r} -> {lim_arg!r}; deltas {del_before!r} -> {del_arg!r}")
            res = np.asarray(c.coordinates, dtype=float) if isinstance(c.coordinates, np.ndarray) else None
        elif name in ("ds", "and", "or"):
            if n_dim != 2 or is_t:
                return None
            smp = arr(np.abs(np.asarray(ghm.draw_sample(800, random_state=seed))) + 1e-3)
            # AND / OR contours use Monte-Carlo marginal quantiles (global RNG): same state for both evaluations.
            # A direct-sampling contour of a supplied sample has no random input: the repetition runs under another
            # global RNG state and must still give the same contour
            np.random.seed((seed + (7919 * rep if name == "ds" else 0)) % (2**32))
            if name == "ds":
                c = virocon.DirectSamplingContour(model, op["alpha"], n=(300 if seed % 2 else None), deg_step=20, sample=smp)
            elif name == "and":
                c = virocon.AndContour(model, max(op["alpha"], 0.02), deg_step=15, sample=smp, allowed_error=0.2)
            else:
                try:
                    c = virocon.OrContour(model, max(op["alpha"], 0.02), deg_step=10, sample=smp, allowed_error=0.2, lowest_theta=20, highest_theta=70)
                except IndexError:
                    return None
            res = np.asarray(c.coordinates, dtype=float)
        elif name in ("design", "plot_contour", "save"):
            if n_dim != 2 or is_t:
                return None
            c = virocon.IFORMContour(model, op["alpha"], n_points=16)
            cb = np.array(c.coordinates)
            c.coordinates.flags.writeable = False
            if name == "design":
                res = np.asarray(virocon.calculate_design_conditions(c, steps=5, swap_axis=bool(seed % 2)))
            elif name == "plot_contour":
                import matplotlib

                matplotlib.use("Agg")
                import matplotlib.pyplot as plt

                fig, ax = plt.subplots()
                try:
                    smp = arr(np.asarray(model.draw_sample(100, random_state=seed)))
                    virocon.plot_2D_contour(c, sample=smp, design_conditions=True, swap_axis=bool(seed % 2), ax=ax)
                    res = np.asarray(ax.lines[0].get_xydata())
                finally:
                    plt.close(fig)
            else:
                path = os.path.join(tmpdir, f"c_{seed}")
                virocon.save_contour_coordinates(c, path)
                res = open(path + ".txt").read()
            if not np.array_equal(np.asarray(c.coordinates), cb, equal_nan=True):
                ctx.violation(f"contour_coordinates_mutated:{name}", "")
        elif name == "plot_isodensity":
            if n_dim != 2 or is_t:
                return None
            import matplotlib

            matplotlib.use("Agg")
            import matplotlib.pyplot as plt

            fig, ax = plt.subplots()
            try:
                smp = arr(np.abs(np.asarray(model.draw_sample(200, random_state=seed))) + 0.05)
                virocon.plot_2D_isodensity(model, smp, swap_axis=bool(seed % 2), ax=ax, n_grid_steps=12, levels=[1e-3, 1e-2])
                res = np.asarray(ax.collections[0].get_offsets())
            finally:
                plt.close(fig)
    for r, orig in inputs:
        if not np.array_equal(np.asarray(r), orig, equal_nan=True):
            ctx.violation(f"input_mutated:{name}", "a caller-owned array was changed")
    return res


def same(a, b):
    if a is None or b is None:
        return a is None and b is None
    if isinstance(a, str):
        return a == b
    a, b = np.asarray(a), np.asarray(b)
    if a.dtype.kind not in 'fc' or b.dtype.kind not in 'fc':
        return a.shape == b.shape and np.array_equal(a, b)
    # last-bit differences of numpy's SIMD kernels between identical calls (buffer alignment) are not a state change
    # (amplified through inverse cdfs of dependent variables up to ~1e-14 relative, see C07): rtol 1e-10, and the same
    # relative to the result's magnitude for entries that cancel to ~0; a state change moves results by O(1)
    if a.shape != b.shape:
        return False
    fin = np.abs(a[np.isfinite(a)])
    floor = 1e-10 * float(fin.max()) if fin.size else 0.0
    return bool(np.allclose(a, b, rtol=1e-10, atol=floor, equal_nan=True))


def check_history(case, ctx):
    import virocon

    tmpdir = tempfile.mkdtemp(prefix="vp_c19_")
    try:
        try:
            pool = Pool(case)
        except RuntimeError:
            ctx.rejected_by_contract()
            return
        ctx.cls(f"getter={case['getter']}")
        base = pool.snapshots()
        has_fit = False
        had_eval_after = False
        for step, op in enumerate(case["ops"]):
            name = op["op"]
            ctx.cls(f"op={name}")
            before = pool.snapshots()
            fitted_key = None
            try:
                if name == "fit_other_getter":
                    # a fresh description from the same getter is fitted: must not touch the pool's models
                    m2, descs2, fd2, raw2 = predefined_model(case["getter"])
                    shared = set(snap.mutable_ids(pool.raw)) & set(snap.mutable_ids(raw2))
                    if shared:
                        kinds = sorted({snap.mutable_ids(raw2)[i] for i in shared})
                        ctx.violation(f"getter_shares_state:{case['getter']}", f"two calls of {case['getter']} share {len(shared)} mutable objects: {kinds}")
                    with warnings.catch_warnings():
                        warnings.simplefilter("ignore")
                        m2.fit(synthetic_data(case["getter"], 1200, op["seed"]), fd2)
                    has_fit = True
                elif name == "fit_generated":
                    spec = case["spec2"]
                    m3 = build.model(spec)
                    has_fit = True
                    data = points_for(spec, np.random.default_rng(op["seed"]).uniform(0.01, 0.99, size=(600, 2)))
                    try:
                        with warnings.catch_warnings():
                            warnings.simplefilter("ignore")
                            m3.fit(ro(data))
                    except (RuntimeError, ValueError, TypeError):
                        pass
                elif name == "fit_conditional":
                    from virocon.distributions import ConditionalDistribution

                    tmpl = build.dist("LogNormal", dict(mu=0.3, sigma=0.7))
                    tp = dict(tmpl.parameters)
                    df1 = virocon.DependenceFunction(lambda x, a=1.0, b=0.1: a + b * x)
                    df2 = virocon.DependenceFunction(lambda x, a=0.3, b=0.0: a + b * x)
                    cd = ConditionalDistribution(tmpl, {"mu": df1, "sigma": df2})
                    rng = np.random.default_rng(op["seed"])
                    ints = [ro(rng.lognormal(0.5 + 0.2 * i, 0.3, 80)) for i in range(4)]
                    with warnings.catch_warnings():
                        warnings.simplefilter("ignore")
                        cd.fit(ints, [1.0, 2.0, 3.0, 4.0], [(0.5, 1.5), (1.5, 2.5), (2.5, 3.5), (3.5, 4.5)], "mle")
                    if dict(tmpl.parameters) != tp:
                        ctx.violation("template_changed_by_conditional_fit", f"{tp} -> {dict(tmpl.parameters)}")
                    if any(d is tmpl for d in cd.distributions_per_interval) or len({id(d) for d in cd.distributions_per_interval}) != 4:
                        ctx.violation("interval_distributions_not_distinct_copies", "")
                    has_fit = True
                elif name == "refit_pool":
                    # fitting one pool model must leave the others untouched
                    fitted_key = "P"
                    _, _, fd, _ = predefined_model(case["getter"])
                    with warnings.catch_warnings():
                        warnings.simplefilter("ignore")
                        pool.models["P"].fit(synthetic_data(case["getter"], 1000, op["seed"]), fd)
                    has_fit = True
                else:
                    key = op["model"]
                    r1 = run_eval(op, key, pool, None, ctx, tmpdir)
                    mid = pool.snapshots()
                    r2 = run_eval(op, key, pool, None, ctx, tmpdir, rep=1)
                    if not same(r1, r2):
                        ctx.violation(f"not_repeatable:{name}", f"model {key}: the same call returned different results")
                    if has_fit:
                        had_eval_after = True
                    if mid != before:
                        changed = [k for k in before if before[k] != mid[k]]
                        ctx.violation(f"model_changed_by:{name}", f"models {changed} changed during {name} on model {key}")
                        return
            except ValueError as e:
                if "read-only" in str(e):
                    ctx.violation(f"writes_to_input:{name}", f"{name} tried to write into a caller-owned (read-only) array: {e}")
                    return
                ctx.note(f"{name}: {type(e).__name__}: {str(e)[:80]}")
            except (RuntimeError, NotImplementedError, AssertionError, IndexError, TypeError, np.linalg.LinAlgError) as e:
                ctx.note(f"{name}: {type(e).__name__}: {str(e)[:80]}")
            after = pool.snapshots()
            for k in after:
                if k == fitted_key:
                    continue
                if after[k] != before[k]:
                    ctx.violation(f"model_changed_by:{name}", f"model {k} changed during step {step} ({name})")
                    return
        ctx.nontrivial(has_fit and had_eval_after or any(o["op"] in ("iform", "isorm", "hdc", "ds", "and", "or") for o in case["ops"]))
    finally:
        shutil.rmtree(tmpdir, ignore_errors=True)
        try:
            import matplotlib.pyplot as plt

            plt.close("all")
        except Exception:  # noqa: BLE001
            pass


@st.composite
def strat_history(draw, tier):
    max_len = 6 if tier == "quick" else 10
    nonneg = ["Weibull", "LogNormal", "ExponentiatedWeibull", "GeneralizedGamma"]
    spec2 = draw(models.model_spec(n_dims=(2,), leaf_families=nonneg, conditioner_families=nonneg, allow_scipy=False, allow_normal_conditioner=False, bounded_shapes=True))
    spec3 = draw(models.model_spec(n_dims=(3,), leaf_families=nonneg + ["Normal"], conditioner_families=nonneg, allow_scipy=False, allow_normal_conditioner=False, bounded_shapes=True))
    n_ops = draw(st.integers(2, max_len))
    ops = []
    for _ in range(n_ops):
        name = draw(st.sampled_from(EVAL_OPS + EVAL_OPS + ["fit_other_getter", "fit_generated", "fit_conditional", "refit_pool"]))
        if name == "cdf" and draw(st.integers(0, 2)) > 0:
            name = "pdf"  # the joint cdf costs seconds: keep it a minority
        ops.append(dict(
            op=name, model=draw(st.sampled_from(["A", "A", "B", "P"])), seed=draw(st.integers(0, 2**31 - 1)),
            alpha=float(10.0 ** draw(st.floats(-3, -1))), us=draw(st.lists(st.lists(st.floats(0.05, 0.95), min_size=3, max_size=3), min_size=1, max_size=4)),
        ))
    return dict(spec2=spec2, spec3=spec3, getter=draw(st.sampled_from(GETTERS)), prefit=draw(st.booleans()), seed=draw(st.integers(0, 2**31 - 1)), ops=ops)


PARTS = [
    Part("history", check_history, lambda tier: strat_history(tier), quick=160, thorough=3000, shrink=False, min_per_shard=2, min_nontrivial_frac=0.2),
]
