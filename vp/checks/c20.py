"""C20 - exported, plotted and loaded data are exactly the computed / stored values."""

import math
import os
import shutil
import tempfile
import warnings

import numpy as np
from hypothesis import strategies as st

from vp.runner import Part
from vp.gen import models, families as fam
from vp.oracles import refmodel, formulas as F
from vp import build

ID = "C20"
LEVEL = "exploration"
RULE = (
    "Hypothesis draws (save) coordinate arrays of 2-D / 3-D contours (stubs with generated coordinates over several magnitudes and real "
    "IFORM/ISORM/DS contours), semantics (None or generated names/units incl. ';', unicode, '$..$'; no line breaks) and paths with / without "
    "extension and dotted directory names; (plot_contour) contours, samples as ndarray / DataFrame / None, design_conditions None / True / array "
    "/ False, swap_axis; (fitted) a model fitted to generated data for plot_dependence_functions, plot_histograms_of_interval_distributions, "
    "plot_2D_isodensity (recording wrapper around Axes.contour) and plot_marginal_quantiles; (read) synthetic EC-benchmark files of 1-10000 "
    "rows. Oracle: the written file re-parsed (header, N rows in order, |value - coordinate| <= 0.5e-6), the data held by the matplotlib "
    "artists on a real Agg Axes (closed polyline, scatter offsets, pdf lines, dependence scatter / line, grid Z == model.pdf), the returned "
    "DataFrame (rows, order, DatetimeIndex, column names). Non-trivial: swap_axis or design conditions or >= 2 rows."
)
ASSUMPTIONS = [
    "matplotlib (Agg backend) artists are the observation point: what is handed to Axes.plot / scatter / contour is what is drawn",
    "the theoretical quantiles of plot_marginal_quantiles are compared for unconditional dimensions (scipy's order-statistic medians through the reference icdf)",
]


class Stub:
    def __init__(self, coords):
        self.coordinates = coords


def _plt():
    import matplotlib

    matplotlib.use("Agg")
    import matplotlib.pyplot as plt

    return plt


# ------------------------------------------------------------------------------- save
def check_save(case, ctx):
    from virocon import save_contour_coordinates

    if case.get("contour"):
        try:
            cont = real_contour(case["contour"], 7, 0.02)
        except Exception as e:  # noqa: BLE001
            ctx.note(f"contour construction failed: {type(e).__name__}")
            return
        coords = np.array(cont.coordinates, dtype=float)
        ctx.cls(f"contour={case['contour']}")
    else:
        coords = np.array(case["coords"], dtype=float)
    n, d = coords.shape
    ctx.cls(f"n_dim={d}", f"ext={case['ext'] or 'none'}", f"semantics={'default' if case['semantics'] is None else 'custom'}")
    ctx.nontrivial(n >= 2)
    tmp = tempfile.mkdtemp(prefix="vp_c20_")
    try:
        sub = os.path.join(tmp, case["dirname"])
        os.makedirs(sub, exist_ok=True)
        path = os.path.join(sub, case["basename"] + case["ext"])
        sem = case["semantics"]
        before = coords.copy()
        try:
            save_contour_coordinates(cont if case.get("contour") else Stub(coords), path, None if sem is None else {"names": sem["names"], "symbols": ["s"] * d, "units": sem["units"]})
        except Exception as e:  # noqa: BLE001
            kind = "unicode" if isinstance(e, UnicodeError) else "other"
            ctx.violation(f"save:raises:{type(e).__name__}:{kind}", f"path=...{case['dirname']}/{case['basename']}{case['ext']} semantics={sem}: {str(e)[:150]}")
            return
        if not np.array_equal(coords, before):
            ctx.violation("save:coordinates_mutated", "")
        expected_path = path if case["ext"] else path + ".txt"
        if not os.path.isfile(expected_path):
            ctx.violation("save:path", f"expected file {os.path.relpath(expected_path, tmp)}; directory holds {os.listdir(sub)}")
            return
        if len(os.listdir(sub)) != 1:
            ctx.violation("save:extra_files", f"{os.listdir(sub)}")
        raw = open(expected_path, "rb").read()
        try:
            text = raw.decode("utf-8")
        except UnicodeDecodeError:
            text = raw.decode("latin1")
        lines = text.split("\n")
        if lines and lines[-1] == "":
            lines = lines[:-1]
        names = sem["names"] if sem else [f"Variable {k + 1}" for k in range(d)]
        units = sem["units"] if sem else ["arb. unit"] * d
        header = ";".join(f"{names[k]} ({units[k]})" for k in range(d))
        if lines[0] != header:
            ctx.violation("save:header", f"first line {lines[0]!r}, expected {header!r}")
            return
        rows = lines[1:]
        if len(rows) != n:
            ctx.violation("save:row_count", f"{len(rows)} rows for {n} contour points")
            return
        for i, row in enumerate(rows):
            parts = row.split(";")
            if len(parts) != d:
                ctx.violation("save:delimiter", f"row {i}: {row!r}")
                return
            vals = np.array([float(p) for p in parts])
            if np.any(np.abs(vals - coords[i]) > 0.5e-6 * (1 + 1e-9) + 1e-9 * np.abs(coords[i]) * 1e-6):
                ctx.violation("save:value", f"row {i}: parsed {vals.tolist()} for coordinates {coords[i].tolist()}")
                return
    finally:
        shutil.rmtree(tmp, ignore_errors=True)


TEXT = st.text(alphabet=st.characters(blacklist_categories=("Cs", "Cc"), blacklist_characters="\n\r\x0b\x0c\x1c\x1d\x1e\x85  "), min_size=1, max_size=12)
LATIN = st.text(alphabet=st.sampled_from(list("abcXYZ _-;,$^{}()/0123456789äöüß°µ")), min_size=1, max_size=12)


@st.composite
def strat_save(draw, tier):
    d = draw(st.sampled_from([2, 2, 3]))
    n = draw(st.integers(1, 60))
    mag = draw(st.sampled_from([1e-3, 1.0, 1.0, 30.0, 1e4]))
    coords = draw(st.lists(st.lists(st.floats(-1, 1).map(lambda v: float(v * mag)), min_size=d, max_size=d), min_size=n, max_size=n))
    sem = None
    if draw(st.booleans()):
        txt = draw(st.sampled_from(["latin", "latin", "unicode"]))
        s_ = LATIN if txt == "latin" else TEXT
        sem = dict(names=[draw(s_) for _ in range(d)], units=[draw(s_) for _ in range(d)], kind=txt)
    real = draw(st.sampled_from([None] * 8 + ["IFORM", "ISORM", "HDC", "DS", "And", "Or"]))
    if real:
        d = 2
        if sem:
            sem = dict(names=sem["names"][:2], units=sem["units"][:2], kind=sem["kind"])
    return dict(
        contour=real, coords=coords, semantics=sem, ext=draw(st.sampled_from(["", "", ".txt", ".csv", ".dat"])),
        dirname=draw(st.sampled_from(["out", "dir.v1", "a.b.c", "run 2"])), basename=draw(st.sampled_from(["contour", "my_contour", "c-1", "contour 50yr"])),
    )


# ------------------------------------------------------------------------ plot_contour
def polygon_coords(seed, m):
    rng = np.random.default_rng(seed)
    ang = np.sort(rng.uniform(0, 2 * np.pi, m))
    r = 1 + 0.3 * rng.uniform(-1, 1, m)
    return np.c_[8 + 3 * r * np.cos(ang), 12 + 5 * r * np.sin(ang)]


DNVGL = [{"family": "Weibull", "params": {"alpha": 2.776, "beta": 1.471, "gamma": 0.8888}},
         {"family": "LogNormal", "conditional_on": 0, "fixed": {}, "dependent": {"mu": {"shape": "power3", "coef": [0.1, 1.489, 0.1901]}, "sigma": {"shape": "exp3", "coef": [0.04, 0.1748, -0.2243]}}}]


def real_contour(kind, seed, alpha):
    """one of the six contour classes on the DNV GL sea-state model"""
    import virocon

    model = build.model(DNVGL)
    if kind == "IFORM":
        return virocon.IFORMContour(model, alpha, n_points=24)
    if kind == "ISORM":
        return virocon.ISORMContour(model, alpha, n_points=24)
    if kind == "HDC":
        return virocon.HighestDensityContour(model, alpha, limits=[(0, 20), (0, 20)], deltas=[0.5, 0.5])
    sample = model.draw_sample(4000, random_state=seed)
    if kind == "DS":
        return virocon.DirectSamplingContour(model, alpha, deg_step=10, sample=sample)
    np.random.seed(seed % (2**32))
    with warnings.catch_warnings():
        warnings.simplefilter("ignore")
        if kind == "And":
            return virocon.AndContour(model, alpha, deg_step=10, sample=sample, allowed_error=0.1)
        return virocon.OrContour(model, alpha, deg_step=5, sample=sample, allowed_error=0.1, lowest_theta=30, highest_theta=70)


def scatter_offsets(coll):
    return np.asarray(coll.get_offsets(), dtype=float)


def check_plot_contour(case, ctx):
    from virocon import plot_2D_contour, calculate_design_conditions
    import pandas as pd

    plt = _plt()
    ck = case.get("contour", "stub")
    if ck == "stub":
        coords = polygon_coords(case["seed"], case["m"])
        cont = Stub(coords.copy())
    else:
        try:
            cont = real_contour(ck, case["seed"], 0.02)
        except Exception as e:  # noqa: BLE001
            ctx.note(f"contour construction failed: {type(e).__name__}")
            return
        coords = np.array(cont.coordinates, dtype=float)
    ctx.cls(f"contour={ck}")
    swap = case["swap_axis"]
    dc_kind = case["design_conditions"]
    ctx.cls(f"swap={swap}", f"design_conditions={dc_kind}", f"sample={case['sample']}")
    ctx.nontrivial(swap or dc_kind in ("true", "array"))
    rng = np.random.default_rng(case["seed"] + 1)
    sample = None
    sample_arr = None
    if case["sample"] != "none":
        sample_arr = np.c_[rng.uniform(4, 12, case["n_sample"]), rng.uniform(5, 19, case["n_sample"])]
        sample = pd.DataFrame(sample_arr.copy(), columns=["a", "b"]) if case["sample"] == "dataframe" else sample_arr.copy()
    xi, yi = (1, 0) if swap else (0, 1)
    if dc_kind == "none":
        dc_arg = None
    elif dc_kind == "true":
        dc_arg = True
    elif dc_kind == "false":
        dc_arg = False
    else:
        dc_arg = np.c_[rng.uniform(5, 11, 4), rng.uniform(8, 16, 4)]
    dc_before = None if not isinstance(dc_arg, np.ndarray) else dc_arg.copy()
    fig, ax = plt.subplots()
    try:
        try:
            with warnings.catch_warnings():
                warnings.simplefilter("ignore")
                ret = plot_2D_contour(cont, sample=sample, design_conditions=dc_arg, swap_axis=swap, ax=ax)
        except Exception as e:  # noqa: BLE001
            ctx.violation(f"plot_contour:raises:{type(e).__name__}:dc={dc_kind}", f"sample={case['sample']} swap={swap}: {str(e)[:150]}")
            return
        if not np.array_equal(np.asarray(cont.coordinates, dtype=float), coords):
            ctx.violation("plot_contour:coordinates_mutated", "")
        if sample_arr is not None and not np.array_equal(np.asarray(sample), sample_arr):
            ctx.violation("plot_contour:sample_mutated", "")
        # the contour line
        if len(ax.lines) != 1:
            ctx.violation("plot_contour:line_count", f"{len(ax.lines)} lines on the axes")
            return
        xy = np.asarray(ax.lines[0].get_xydata(), dtype=float)
        exp = np.r_[coords[:, [xi, yi]], coords[:1, [xi, yi]]]
        if xy.shape != exp.shape or not np.array_equal(xy, exp):
            ctx.violation(f"plot_contour:polyline:swap={swap}", f"line has {len(xy)} points, first {xy[:2].tolist()} last {xy[-1:].tolist()}; expected {len(exp)} points, first {exp[:2].tolist()} last {exp[-1:].tolist()}")
            return
        colls = list(ax.collections)
        exp_colls = []
        if dc_kind == "true":
            exp_colls.append(("design_conditions", np.asarray(calculate_design_conditions(Stub(coords.copy()), swap_axis=swap), dtype=float).reshape(-1, 2)))
        elif dc_kind == "array":
            exp_colls.append(("design_conditions", dc_before))
        if sample_arr is not None:
            exp_colls.append(("sample", sample_arr[:, [xi, yi]]))
        if len(colls) != len(exp_colls):
            ctx.violation("plot_contour:scatter_count", f"{len(colls)} scatter collections, expected {[c[0] for c in exp_colls]}")
            return
        for coll, (name, e) in zip(colls, exp_colls):
            off = scatter_offsets(coll)
            if off.shape != e.shape or not np.array_equal(off, e):
                ctx.violation(f"plot_contour:scatter:{name}:swap={swap}", f"{name}: plotted {off[:2].tolist()}..., expected {e[:2].tolist()}...")
                return
        # return value
        if dc_kind == "none":
            if ret is not ax:
                ctx.violation("plot_contour:return", f"returned {type(ret).__name__}, expected the Axes")
        elif dc_kind in ("true", "array"):
            if not (isinstance(ret, tuple) and len(ret) == 2 and ret[0] is ax and np.array_equal(np.asarray(ret[1], dtype=float), exp_colls[0][1])):
                ctx.violation("plot_contour:return", f"returned {type(ret).__name__}; expected (ax, design_conditions)")
    finally:
        plt.close(fig)


def strat_plot_contour(tier):
    return st.builds(
        lambda seed, m, swap, dc, sample, ns, ck: dict(seed=seed, m=m, swap_axis=swap, design_conditions=dc, sample=sample, n_sample=ns, contour=ck),
        st.integers(0, 2**31 - 10), st.integers(3, 80), st.booleans(),
        st.sampled_from(["none", "true", "array", "array", "false"]), st.sampled_from(["none", "ndarray", "dataframe"]), st.integers(1, 300),
        st.sampled_from(["stub"] * 6 + ["IFORM", "ISORM", "HDC", "DS", "And", "Or"]),
    )


# ---------------------------------------------------------------------- fitted-model plots
def fitted_model(case):
    from virocon import GlobalHierarchicalModel, DependenceFunction, WidthOfIntervalSlicer

    rng = np.random.default_rng(case["seed"])
    n = case["n"]
    hs = 0.3 + 2.2 * rng.weibull(1.5, n)
    mu = 0.3 + 0.9 * hs**0.35
    sg = 0.08 + 0.25 * np.exp(-0.3 * hs)
    tz = np.exp(mu + sg * rng.standard_normal(n))
    data = np.c_[hs, tz]
    p3 = DependenceFunction(depshapes_fn("power3"), [(0, None), (0, None), (None, None)], latex="$a + b * x^c$" if case["latex"] else None)
    e3 = DependenceFunction(depshapes_fn("exp3"), [(0, None), (0, None), (None, None)])
    descs = [
        {"distribution": build.dist("Weibull"), "intervals": WidthOfIntervalSlicer(width=case["width"], min_n_points=20)},
        {"distribution": build.dist("LogNormal"), "conditional_on": 0, "parameters": {"mu": p3, "sigma": e3}},
    ]
    m = GlobalHierarchicalModel(descs)
    with warnings.catch_warnings():
        warnings.simplefilter("ignore")
        m.fit(data)
    return m, data


def depshapes_fn(name):
    from vp.gen import depshapes

    return depshapes.python_callable(name)


def check_fitted_plots(case, ctx):
    from virocon import plot_dependence_functions, plot_histograms_of_interval_distributions, plot_2D_isodensity, plot_marginal_quantiles
    import scipy.stats as sts

    plt = _plt()
    which = case["which"]
    ctx.cls(f"plot={which}")
    ctx.nontrivial()
    try:
        model, data = fitted_model(case)
    except RuntimeError:
        ctx.rejected_by_contract()
        return
    d1 = model.distributions[1]
    try:
        if which == "dependence":
            with warnings.catch_warnings():
                warnings.simplefilter("ignore")
                axes = plot_dependence_functions(model)
            try:
                if len(axes) != len(d1.conditional_parameters):
                    ctx.violation("dependence:axes_count", f"{len(axes)}")
                    return
                cv = np.asarray(d1.conditioning_values, dtype=float)
                for ax, (pname, dep) in zip(axes, d1.conditional_parameters.items()):
                    est = np.array([p[pname] for p in d1.parameters_per_interval], dtype=float)
                    off = scatter_offsets(ax.collections[0]) if ax.collections else np.zeros((0, 2))
                    if off.shape != (len(cv), 2) or not (np.array_equal(off[:, 0], cv) and np.array_equal(off[:, 1], est)):
                        ctx.violation(f"dependence:scatter:{pname}", f"plotted {off[:3].tolist()} expected x={cv[:3].tolist()} y={est[:3].tolist()}")
                        return
                    xy = np.asarray(ax.lines[0].get_xydata(), dtype=float)
                    x = np.linspace(0, max(cv))
                    fn = depshapes_fn("power3" if pname == "mu" else "exp3")
                    y = fn(x, *dep.parameters.values())
                    if xy.shape != (len(x), 2) or not (np.array_equal(xy[:, 0], x) and np.allclose(xy[:, 1], y, rtol=1e-12, atol=0)):
                        ctx.violation(f"dependence:line:{pname}", f"line {xy[:2].tolist()} expected {np.c_[x, y][:2].tolist()}")
                        return
                    if ax.get_ylabel() != pname:
                        ctx.violation("dependence:ylabel", f"{ax.get_ylabel()!r} for parameter {pname!r}")
            finally:
                for ax in axes:
                    plt.close(ax.figure)
        elif which == "histograms":
            with warnings.catch_warnings():
                warnings.simplefilter("ignore")
                figs, axes_list = plot_histograms_of_interval_distributions(model, data.copy(), plot_pdf=True)
            try:
                ax0 = axes_list[0]
                xy = np.asarray(ax0.lines[0].get_xydata(), dtype=float)
                x = np.linspace(data[:, 0].min(), data[:, 0].max())
                y = np.asarray(model.distributions[0].pdf(x), dtype=float)
                if xy.shape != (len(x), 2) or not (np.array_equal(xy[:, 0], x) and np.allclose(xy[:, 1], y, rtol=1e-13, atol=0)):
                    ctx.violation("histograms:marginal_pdf_line", f"{xy[:2].tolist()} vs {np.c_[x, y][:2].tolist()}")
                    return
                axs = axes_list[1]
                for i, dist in enumerate(d1.distributions_per_interval):
                    di = np.asarray(d1.data_intervals[i], dtype=float)
                    x = np.linspace(di.min(), di.max())
                    y = np.asarray(dist.pdf(x), dtype=float)
                    xy = np.asarray(axs[i].lines[0].get_xydata(), dtype=float)
                    if xy.shape != (len(x), 2) or not (np.allclose(xy[:, 0], x, rtol=1e-13) and np.allclose(xy[:, 1], y, rtol=1e-12)):
                        ctx.violation("histograms:interval_pdf_line", f"interval {i}: {xy[:2].tolist()} vs {np.c_[x, y][:2].tolist()}")
                        return
                    title = axs[i].get_title()
                    if f"n={len(di)}" not in title or f"{d1.conditioning_values[i]:.3f}" not in title:
                        ctx.violation("histograms:title", f"interval {i}: {title!r}")
                        return
            finally:
                for f in figs:
                    plt.close(f)
        elif which == "isodensity":
            fig, ax = plt.subplots()
            try:
                rec = {}
                orig = ax.contour

                def recorder(X, Y, Z, **kw):
                    rec["X"], rec["Y"], rec["Z"], rec["kw"] = np.array(X), np.array(Y), np.array(Z), kw
                    return orig(X, Y, Z, **kw)

                ax.contour = recorder
                swap = case["swap_axis"]
                levels = case["levels"]
                limits = case["limits"]
                with warnings.catch_warnings():
                    warnings.simplefilter("ignore")
                    plot_2D_isodensity(model, data.copy(), swap_axis=swap, limits=limits, levels=levels, ax=ax, n_grid_steps=case["n_grid"])
                if "Z" not in rec:
                    ctx.violation("isodensity:no_contour_call", "")
                    return
                X, Y, Z = rec["X"], rec["Y"], rec["Z"]
                # model coordinates of every grid node
                XM, YM = (Y, X) if swap else (X, Y)
                ref = np.asarray(model.pdf(np.c_[XM.ravel(), YM.ravel()]), dtype=float).reshape(Z.shape)
                if Z.shape != X.shape or not np.allclose(Z, ref, rtol=1e-12, atol=0, equal_nan=True):
                    bad = np.unravel_index(int(np.nanargmax(np.abs(Z - ref))), Z.shape)
                    ctx.violation(f"isodensity:grid_values:swap={swap}", f"Z{bad}={Z[bad]!r} but model.pdf at the plotted node ({XM[bad]!r},{YM[bad]!r}) = {ref[bad]!r}")
                    return
                if limits is not None:
                    ex = (limits[0][0], limits[0][1], limits[1][0], limits[1][1])
                    got = (XM.min(), XM.max(), YM.min(), YM.max())
                    if not np.allclose(got, ex, rtol=1e-12):
                        ctx.violation("isodensity:limits", f"grid spans {got}, limits {ex}")
                if levels is not None and not np.array_equal(np.asarray(rec["kw"].get("levels"), dtype=float), np.asarray(levels, dtype=float)):
                    ctx.violation("isodensity:levels", f"{rec['kw'].get('levels')} vs {levels}")
                off = scatter_offsets(ax.collections[0])
                xi, yi = (1, 0) if swap else (0, 1)
                if not np.array_equal(off, data[:, [xi, yi]]):
                    ctx.violation(f"isodensity:sample_scatter:swap={swap}", f"{off[:2].tolist()} vs {data[:2, [xi, yi]].tolist()}")
            finally:
                plt.close(fig)
        elif which == "quantiles":
            sample = data[: case["n_q"]].copy()
            np.random.seed(case["seed"] % (2**32))
            with warnings.catch_warnings():
                warnings.simplefilter("ignore")
                axes = plot_marginal_quantiles(model, sample)
            try:
                for dim, ax in enumerate(axes):
                    xy = np.asarray(ax.get_lines()[0].get_xydata(), dtype=float)
                    if not np.array_equal(xy[:, 1], np.sort(sample[:, dim])):
                        ctx.violation("quantiles:ordered_values", f"dim {dim}: {xy[:3, 1].tolist()} vs {np.sort(sample[:, dim])[:3].tolist()}")
                        return
                    if dim == 0:
                        class W:
                            def ppf(self, q):
                                return model.distributions[0].icdf(q)

                        (osm, osr) = sts.probplot(sample[:, 0], dist=W(), fit=False)
                        if not np.allclose(xy[:, 0], osm, rtol=1e-12):
                            ctx.violation("quantiles:theoretical", f"{xy[:3, 0].tolist()} vs {np.asarray(osm)[:3].tolist()}")
                            return
            finally:
                for ax in axes:
                    plt.close(ax.figure)
    except Exception as e:  # noqa: BLE001
        ctx.violation(f"{which}:raises:{type(e).__name__}", str(e)[:200])
    finally:
        plt.close("all")


@st.composite
def strat_fitted(draw, tier):
    which = draw(st.sampled_from(["dependence", "histograms", "isodensity", "isodensity", "quantiles"]))
    case = dict(which=which, seed=draw(st.integers(0, 2**31 - 10)), n=draw(st.integers(600, 3000)), width=draw(st.sampled_from([0.5, 0.75, 1.0])), latex=draw(st.booleans()))
    if which == "isodensity":
        case["swap_axis"] = draw(st.booleans())
        case["n_grid"] = draw(st.integers(5, 60))
        case["levels"] = draw(st.sampled_from([None, [1e-3, 1e-2, 1e-1], [1e-4, 1e-2]]))
        case["limits"] = draw(st.sampled_from([None, [[0.0, 8.0], [0.0, 20.0]], [[0.5, 6.0], [2.0, 15.0]]]))
    if which == "quantiles":
        case["n_q"] = draw(st.integers(5, 400))
    return case


# ------------------------------------------------------------------------------- read
def check_read(case, ctx):
    from virocon import read_ec_benchmark_dataset
    import pandas as pd

    rng = np.random.default_rng(case["seed"])
    n, k = case["n_rows"], case["n_cols"]
    ctx.cls(f"cols={k}", f"rows_decade={int(math.log10(max(n, 1)))}")
    ctx.nontrivial(n >= 2)
    start = pd.Timestamp(case["start"])
    stamps = [start + pd.Timedelta(hours=int(h)) for h in np.cumsum(rng.integers(1, 4, n))]
    # "every data row, in order": the order of the file, also when it is not chronological (campaign files
    # concatenated newest first, a single row out of place) or has repeated time stamps
    order = case.get("order", "increasing")
    if order == "reversed":
        stamps = stamps[::-1]
    elif order == "shuffled":
        stamps = [stamps[i] for i in rng.permutation(n)]
    elif order == "blocks" and n >= 4:
        h = n // 2
        stamps = stamps[h:] + stamps[:h]
    elif order == "duplicates" and n >= 2:
        stamps = [stamps[i // 2] for i in range(n)]
    ctx.cls(f"order={order}")
    vals = np.round(rng.uniform(0, 30, size=(n, k)), 4)
    cols = ["time (YYYY-MM-DD-HH)", "significant wave height (m)", "zero-up-crossing period (s)", "wind speed (m s-1)"][: k + 1]
    tmp = tempfile.mkdtemp(prefix="vp_c20r_")
    try:
        path = os.path.join(tmp, "data.txt")
        with open(path, "w") as fh:
            fh.write("; ".join(cols) + "\n")
            for s, row in zip(stamps, vals):
                fh.write("; ".join([s.strftime("%Y-%m-%d-%H")] + [f"{v:.4f}" for v in row]) + "\n")
        try:
            df = read_ec_benchmark_dataset(path)
        except Exception as e:  # noqa: BLE001
            ctx.violation(f"read:raises:{type(e).__name__}", str(e)[:200])
            return
        if list(df.columns) != cols[1:]:
            ctx.violation("read:columns", f"{list(df.columns)} vs {cols[1:]}")
            return
        if df.shape != (n, k):
            ctx.violation("read:shape", f"{df.shape} vs {(n, k)}")
            return
        if not np.array_equal(df.values, vals):
            ctx.violation("read:values", f"first differing row {int(np.argmax(np.any(df.values != vals, axis=1)))}")
            return
        if not isinstance(df.index, pd.DatetimeIndex) or list(df.index) != stamps:
            ctx.violation("read:index", f"index {list(df.index)[:2]} vs {stamps[:2]}")
    finally:
        shutil.rmtree(tmp, ignore_errors=True)


def strat_read(tier):
    big = 10000 if tier == "thorough" else 2000
    return st.builds(
        lambda seed, n, k, start, order: dict(seed=seed, n_rows=n, n_cols=k, start=start, order=order),
        st.integers(0, 2**31 - 1), st.one_of(st.integers(1, 50), st.integers(1, big)), st.sampled_from([2, 3]),
        st.sampled_from(["1996-01-01 00:00", "2005-12-31 22:00", "2020-02-28 23:00"]),
        st.sampled_from(["increasing", "increasing", "reversed", "shuffled", "blocks", "duplicates"]),
    )


PARTS = [
    Part("save", check_save, lambda tier: strat_save(tier), quick=1500, thorough=30000, min_nontrivial_frac=0.3),
    Part("plot_contour", check_plot_contour, strat_plot_contour, quick=400, thorough=6000, shrink_quick=False, min_nontrivial_frac=0.25),
    Part("fitted_plots", check_fitted_plots, lambda tier: strat_fitted(tier), quick=96, thorough=2000, shrink=False, min_per_shard=2),
    Part("read", check_read, strat_read, quick=300, thorough=5000, min_nontrivial_frac=0.25),
]
