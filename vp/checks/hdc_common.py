"""Shared generator and region reconstruction for the HighestDensityContour checks (C02, C15)."""

import math
import warnings

import numpy as np
from hypothesis import strategies as st

from vp.gen import models, families as fam
from vp.oracles import refmodel, hdr
from vp import build
from vp.runner import time_limit, CaseTimeout

HDC_BUDGET_S = 120  # wall-clock budget of one HighestDensityContour construction

NONNEG = ["Weibull", "LogNormal", "ExponentiatedWeibull", "GeneralizedGamma", "LogNormalNormFit"]

EPS = 1e-9
ATOL_P = 1e-14  # absolute accuracy of a cell probability that is a difference of two cdf values near 1


@st.composite
def hdc_case(draw, tier, dims=(2, 2, 2, 3), bimodal=False):
    if draw(st.integers(0, 5)) == 0:
        return draw(bimodal_case(tier))
    n = draw(st.sampled_from(list(dims)))
    spec = draw(
        models.model_spec(
            n_dims=(n,), leaf_families=NONNEG, conditioner_families=NONNEG, allow_scipy=False, allow_normal_conditioner=False,
            bounded_shapes=True,
        )
    )
    alpha = float(10.0 ** draw(st.floats(-6, math.log10(0.3))))
    # grid: cells per axis
    if n == 2:
        hi_cells = 320 if tier == "thorough" else 160  # (virocon's optimal-start search keeps n^2 path entries: ~0.5 GB at 4000 boundary cells)
        cells = [draw(st.integers(10, hi_cells)) for _ in range(n)]
    else:
        hi_cells = 80 if tier == "thorough" else 36
        cells = [draw(st.integers(10, hi_cells)) for _ in range(n)]
    # explicit limits from approximate marginal quantiles: upper = quantile(1 - alpha * t)
    t = float(10.0 ** draw(st.floats(-3, math.log10(50))))
    q = min(max(1 - alpha * t, 0.05), 1 - 1e-13)
    rng = refmodel.approx_range(spec, 1e-3, q)
    uppers = [float(max(r[1], 1e-3)) for r in rng]
    lower_mode = draw(st.sampled_from(["zero", "zero", "zero", "offset"]))
    limits = []
    for k in range(n):
        lo = 0.0 if lower_mode == "zero" else float(0.02 * uppers[k])
        lim = (lo, uppers[k])
        limits.append(lim)
    deltas_kind = draw(st.sampled_from(["list", "list", "scalar", "aniso"]))
    widths = [abs(l[1] - l[0]) / c for l, c in zip(limits, cells)]
    ranges = [abs(l[1] - l[0]) for l in limits]
    if deltas_kind == "scalar" and max(ranges) / (min(ranges) / 10.0) > 2 * hi_cells:
        deltas_kind = "list"  # one scalar cell size cannot give every axis 10..~400 cells
    if deltas_kind == "scalar":
        # at least 10 cells on the shortest axis, at most ~2*hi_cells on the longest
        d_max = min(ranges) / 10.0
        d_min = max(ranges) / (2.0 * hi_cells)
        deltas = float(d_min + draw(st.floats(0, 1)) * (d_max - d_min))
    elif deltas_kind == "aniso":
        # ratios up to 10 between the (relative) cell sizes
        r = draw(st.floats(1, 10))
        j = draw(st.integers(0, n - 1))
        deltas = [float(w) for w in widths]
        deltas[j] = float(min(deltas[j] * r, abs(limits[j][1] - limits[j][0]) / 10))
    else:
        deltas = [float(w) for w in widths]
    mode = draw(st.sampled_from(["explicit"] * 6 + ["default_limits", "default_deltas"]))
    case = dict(model=spec, alpha=alpha, limits=[list(l) for l in limits], deltas=deltas, mode=mode, np_seed=draw(st.integers(0, 2**31 - 1)))
    if mode == "default_limits":
        case["deltas"] = None  # cell sizes chosen for other limits could mean 1e4 cells per axis
        # the implementation draws 5/(0.2^n alpha) joint samples for conditional dimensions
        case["alpha"] = float(10.0 ** draw(st.floats(-3 if tier == "quick" else -4, math.log10(0.3))))
        case["limits"] = None
        if n == 3:
            case["mode"] = "explicit"
            case["limits"] = [list(l) for l in limits]
            case["deltas"] = deltas
    if case["mode"] == "default_deltas":
        if n == 2:
            case["deltas"] = None  # 0.25 % of the range -> 401 cells per axis
        else:
            case["mode"] = "explicit"
    # an all-integer grid (limits and cell sizes handed over as Python ints, e.g. limits=[(0, 20), (0, 20)], deltas=[1, 1]):
    # seeded change C02e (a buffer of the grid's dtype truncates the cell probabilities). Only where every axis keeps >= 10 cells.
    if case["mode"] == "explicit" and draw(st.integers(0, 1)) == 0 and min(uppers) >= 10.0:
        ilims = [[0, int(math.ceil(u))] for u in uppers]
        if np.isscalar(case["deltas"]):
            idel = max(1, int(round(case["deltas"])))
            ok = all(l[1] / idel >= 10 for l in ilims)
        else:
            idel = [max(1, int(round(d))) for d in case["deltas"]]
            ok = all(l[1] / d >= 10 for l, d in zip(ilims, idel))
        if ok:
            case["limits"], case["deltas"], case["int_grid"] = ilims, idel, True
    return case


@st.composite
def bimodal_case(draw, tier):
    """multi-modal densities (a mixture law declared as ScipyDistribution subclass): regions that split into components"""
    sep = float(draw(st.floats(7.0, 14.0)))
    scale0 = float(draw(st.floats(0.3, 1.5)))
    lvl0 = dict(family="ScipyBimodal", params=dict(sep=sep, loc=0.0, scale=scale0))
    second = draw(st.sampled_from(["bimodal", "lognormal_cond", "weibull"]))
    hi0 = (sep + 14.0) * scale0
    if second == "bimodal":
        sep1, scale1 = float(draw(st.floats(7.0, 14.0))), float(draw(st.floats(0.3, 1.5)))
        lvl1 = dict(family="ScipyBimodal", params=dict(sep=sep1, loc=0.0, scale=scale1))
        hi1 = (sep1 + 14.0) * scale1
    elif second == "lognormal_cond":
        lvl1 = dict(family="LogNormal", conditional_on=0, fixed=dict(sigma=float(draw(st.floats(0.15, 0.4)))),
                    dependent=dict(mu=dict(shape="logistics4", coef=[0.5, float(draw(st.floats(0.3, 1.2))), -1.0 / scale0, 0.5 * hi0])))
        hi1 = 12.0
    else:
        lvl1 = dict(family="Weibull", params=dict(alpha=float(draw(st.floats(1.0, 4.0))), beta=float(draw(st.floats(1.2, 3.0))), gamma=0.0))
        hi1 = 4.0 * lvl1["params"]["alpha"]
    cells = [draw(st.integers(40, 160)), draw(st.integers(20, 120))]
    limits = [[0.0, hi0], [0.0, hi1]]
    deltas = [hi0 / cells[0], hi1 / cells[1]]
    return dict(model=[lvl0, lvl1], alpha=float(10.0 ** draw(st.floats(-2.5, math.log10(0.3)))), limits=limits, deltas=deltas, mode="bimodal", np_seed=draw(st.integers(0, 2**31 - 1)))


class HDCRun:
    """Runs HighestDensityContour on a case and reconstructs the region from public outputs."""

    def __init__(self, case, ctx):
        from virocon import HighestDensityContour

        self.case = case
        self.ok = False
        spec = case["model"]
        self.spec = spec
        self.n = len(spec)
        self.alpha = case["alpha"]
        model = build.model(spec)
        self.model = model
        limits = None if case["limits"] is None else [tuple(l) for l in case["limits"]]
        deltas = case["deltas"]
        np.random.seed(case["np_seed"] % (2**32))
        with warnings.catch_warnings(record=True) as rec:
            warnings.simplefilter("always")
            try:
                with time_limit(HDC_BUDGET_S):
                    self.contour = HighestDensityContour(model, self.alpha, limits=limits, deltas=copy_deltas(deltas))
            except CaseTimeout:
                ctx.cls("timeout:hdc")  # inconclusive (e.g. the O(n^2 x components) optimal-start search on a huge boundary), never a violation
                return
            except MemoryError:
                return
            except Exception as e:  # noqa: BLE001
                ctx.violation(f"raises:HDC:{type(e).__name__}", f"alpha={self.alpha} limits={limits} deltas={deltas}: {str(e)[:300]}")
                return
        self.warned = any(issubclass(w.category, RuntimeWarning) and "could not be reached" in str(w.message) for w in rec)
        c = self.contour
        self.centers = [np.asarray(a, dtype=float) for a in c.cell_center_coordinates]
        if any(len(a) < 2 for a in self.centers):
            return
        self.P, self.deltas = hdr.cell_probabilities(spec, self.centers)
        self.vol = float(np.prod(self.deltas))
        self.dens = self.P / self.vol
        self.fm = float(c.fm)
        self.P_tot = float(self.P.sum())
        self.ok = True

    def region(self):
        """(R, exact) - R boolean region; exact=False when tied cells at the threshold make it ambiguous"""
        cands = self.region_candidates()
        if cands is None:
            return None, False
        return cands[0], len(cands) == 1

    def region_candidates(self, max_amb=7):
        """All regions compatible with fm: cells clearly denser than fm plus any subset of the cells whose
        density equals fm within tolerance (they may be ordered either way by round-off), restricted to
        subsets whose content respects 1-alpha.  None if there are too many tied cells."""
        if self.warned or self.fm == 0:
            return [np.ones(self.P.shape, dtype=bool)]
        T = np.abs(self.dens - self.fm) <= EPS * self.fm + ATOL_P / self.vol
        S = (self.dens > self.fm) & ~T
        tidx = np.argwhere(T)
        if len(tidx) <= 1:
            return [S | T]
        if len(tidx) > max_amb:
            return None
        import itertools

        out = []
        pS = float(self.P[S].sum())
        for r in range(len(tidx), 0, -1):
            for sub in itertools.combinations(range(len(tidx)), r):
                R = S.copy()
                for a in sub:
                    R[tuple(tidx[a])] = True
                if pS + sum(float(self.P[tuple(tidx[a])]) for a in sub) <= 1 - self.alpha + EPS:
                    out.append(R)
        return out or [S | T]


def copy_deltas(d):
    if d is None or np.isscalar(d):
        return d
    return list(d)


def classes(case):
    out = models.spec_classes(case["model"])
    out.append(f"mode={case['mode']}")
    d = case["deltas"]
    if d is None:
        out.append("deltas=default")
    elif np.isscalar(d):
        out.append("deltas=scalar")
    else:
        out.append("deltas=list")
    out.append("grid=int" if case.get("int_grid") else "grid=float")
    out.append(f"alpha_decade={int(math.floor(math.log10(case['alpha'])))}")
    return out
