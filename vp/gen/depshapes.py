"""Named dependence-function shapes.

Every shape appears in predefined.py, the docs or the tests (plus polynomial / linear
extras).  ``python_callable`` yields the plain Python function handed to
``DependenceFunction``; ``evaluate`` is the harness' own reference evaluation of a spec
(never goes through a DependenceFunction object).
"""

import types

import numpy as np


def power3(x, a, b, c):
    return a + b * x**c


def exp3(x, a, b, c):
    return a + b * np.exp(c * x)


def lnsquare2(x, a, b):
    return np.log(a + b * np.sqrt(np.divide(x, 9.81)))


def asymdecrease3(x, a, b, c):
    return a + b / (1 + c * x)


def logistics4(x, a, b, c, d):
    return a + b / (1 + np.exp(c * (x - d)))


def linear2(x, a, b):
    return a + b * x


def limited_growth2(x, a, b):
    return a * (1 - np.exp(-b * x))


def limited_growth_shift2(x, a, b):
    return 0.006 + a * (1 - np.exp(-b * x))


def poly3(x, a, b, c):
    return a + b * x + c * x**2


def const1(x, a):
    return a + 0 * x


def alpha3(x, a, b, c, d_of_x):
    return (a + b * x**c) / 2.0445 ** (1 / d_of_x(x))


def ratio3(x, a, b, d_of_x):
    # second chained shape: scales another dependence function
    return a + b * d_of_x(x)


SHAPES = {
    "power3": (power3, 3),
    "exp3": (exp3, 3),
    "lnsquare2": (lnsquare2, 2),
    "asymdecrease3": (asymdecrease3, 3),
    "logistics4": (logistics4, 4),
    "linear2": (linear2, 2),
    "limited_growth2": (limited_growth2, 2),
    "limited_growth_shift2": (limited_growth_shift2, 2),
    "poly3": (poly3, 3),
    "const1": (const1, 1),
    "alpha3": (alpha3, 3),  # + chained d_of_x
    "ratio3": (ratio3, 2),  # + chained d_of_x
}

CHAINED = {"alpha3": "d_of_x", "ratio3": "d_of_x"}
LINEAR_IN_PARAMS = {"linear2", "poly3", "const1"}


def n_coef(shape):
    return SHAPES[shape][1]


def python_callable(shape, use_defaults=False, coef=None):
    fn = SHAPES[shape][0]
    if use_defaults and coef is not None and shape not in CHAINED:
        # a fresh function object whose signature carries the coefficients as defaults
        g = types.FunctionType(fn.__code__, fn.__globals__, fn.__name__, tuple(float(c) for c in coef), fn.__closure__)
        return g
    # fresh function object per call: no state shared between cases
    return types.FunctionType(fn.__code__, fn.__globals__, fn.__name__, fn.__defaults__, fn.__closure__)


def evaluate(spec, x):
    """Reference value of a dependence spec at conditioning value(s) x."""
    x = np.asarray(x, dtype=float)
    shape = spec["shape"]
    coef = [float(c) for c in spec["coef"]]
    fn = SHAPES[shape][0]
    if shape in CHAINED:
        inner = spec["chain"][CHAINED[shape]]
        return fn(x, *coef, lambda t: evaluate(inner, t))
    return fn(x, *coef)


def weight_callable(name):
    if name == "y":
        return lambda x, y: y
    if name == "y2":
        return lambda x, y: np.asarray(y) ** 2
    if name == "one":
        return lambda x, y: np.ones_like(np.asarray(y, dtype=float))
    if name == "x":
        return lambda x, y: np.asarray(x, dtype=float) + 1.0
    raise ValueError(name)
