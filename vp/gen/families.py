"""Hypothesis strategies for distribution-family parameter vectors (JSON specs)."""

import math

from hypothesis import strategies as st


def logu(lo, hi):
    """log-uniform float in [lo, hi]"""
    a, b = math.log10(lo), math.log10(hi)
    return st.floats(a, b, allow_nan=False, allow_infinity=False).map(lambda e: float(10.0**e))


def uni(lo, hi):
    # rounded to 1e-9 absolute: keeps Hypothesis' subnormal edge cases (5e-324) out of
    # parameters that scipy itself mishandles (e.g. genextreme shape c)
    return st.floats(lo, hi, allow_nan=False, allow_infinity=False).map(lambda v: float(round(v, 9)) + 0.0)


# wide ranges ("several orders of magnitude", C05) -----------------------------------
WIDE = {
    "Weibull": lambda: st.fixed_dictionaries(
        dict(alpha=logu(0.05, 50), beta=logu(0.3, 8), gamma=st.one_of(st.just(0.0), uni(-5, 5)))
    ),
    "LogNormal": lambda: st.fixed_dictionaries(dict(mu=uni(-3, 3), sigma=logu(0.03, 2))),
    "Normal": lambda: st.fixed_dictionaries(dict(mu=uni(-20, 40), sigma=logu(0.03, 20))),
    "ExponentiatedWeibull": lambda: st.fixed_dictionaries(
        dict(alpha=logu(0.005, 30), beta=logu(0.25, 6), delta=logu(0.15, 60))
    ),
    "GeneralizedGamma": lambda: st.fixed_dictionaries(
        dict(m=logu(0.2, 15), c=logu(0.25, 6), lambda_=logu(0.03, 30))
    ),
    "VonMises": lambda: st.fixed_dictionaries(dict(kappa=logu(0.03, 80), mu=uni(-math.pi, math.pi))),
    "LogNormalNormFit": lambda: st.tuples(logu(0.05, 40), logu(0.01, 3)).map(
        lambda t: dict(mu_norm=t[0], sigma_norm=t[0] * t[1])
    ),
    "ScipyGamma": lambda: st.fixed_dictionaries(dict(a=logu(0.3, 20), loc=uni(-2, 2), scale=logu(0.05, 20))),
    "ScipyGumbelR": lambda: st.fixed_dictionaries(dict(loc=uni(-5, 20), scale=logu(0.05, 10))),
    "ScipyRayleigh": lambda: st.fixed_dictionaries(dict(loc=uni(-2, 2), scale=logu(0.05, 20))),
    "ScipyGenGamma": lambda: st.fixed_dictionaries(
        dict(a=logu(0.3, 10), c=logu(0.4, 5), loc=uni(-1, 1), scale=logu(0.05, 20))
    ),
    "ScipyGenExtreme": lambda: st.fixed_dictionaries(dict(c=uni(-0.4, 0.4).map(lambda v: round(v, 3)), loc=uni(-5, 20), scale=logu(0.05, 10))),  # scipy itself is inconsistent for |c| ~ 1e-9
}

# metocean-plausible sub-ranges for model-level properties ---------------------------
PLAUSIBLE = {
    "Weibull": lambda: st.fixed_dictionaries(
        dict(alpha=logu(0.3, 12), beta=logu(0.7, 4), gamma=st.one_of(st.just(0.0), uni(0, 2)))
    ),
    "LogNormal": lambda: st.fixed_dictionaries(dict(mu=uni(-1, 2.5), sigma=logu(0.08, 0.8))),
    "Normal": lambda: st.fixed_dictionaries(dict(mu=uni(-10, 30), sigma=logu(0.2, 8))),
    "ExponentiatedWeibull": lambda: st.fixed_dictionaries(
        dict(alpha=logu(0.1, 12), beta=logu(0.6, 3), delta=logu(0.4, 20))
    ),
    "GeneralizedGamma": lambda: st.fixed_dictionaries(dict(m=logu(0.5, 8), c=logu(0.6, 3), lambda_=logu(0.1, 5))),
    "VonMises": lambda: st.fixed_dictionaries(dict(kappa=logu(0.2, 20), mu=uni(-2, 2))),
    "LogNormalNormFit": lambda: st.tuples(logu(0.3, 20), logu(0.05, 0.8)).map(
        lambda t: dict(mu_norm=t[0], sigma_norm=t[0] * t[1])
    ),
    "ScipyGamma": lambda: st.fixed_dictionaries(dict(a=logu(0.8, 10), loc=st.just(0.0), scale=logu(0.2, 5))),
    "ScipyGumbelR": lambda: st.fixed_dictionaries(dict(loc=uni(2, 20), scale=logu(0.2, 3))),
    "ScipyRayleigh": lambda: st.fixed_dictionaries(dict(loc=st.just(0.0), scale=logu(0.3, 8))),
    "ScipyGenGamma": lambda: st.fixed_dictionaries(
        dict(a=logu(0.6, 6), c=logu(0.6, 3), loc=st.just(0.0), scale=logu(0.2, 5))
    ),
    "ScipyGenExtreme": lambda: st.fixed_dictionaries(dict(c=uni(-0.2, 0.3).map(lambda v: round(v, 3)), loc=uni(2, 20), scale=logu(0.2, 3))),
}

NATIVE = ["Weibull", "LogNormal", "Normal", "ExponentiatedWeibull", "GeneralizedGamma", "VonMises", "LogNormalNormFit"]
SCIPY = ["ScipyGamma", "ScipyGumbelR", "ScipyRayleigh", "ScipyGenGamma", "ScipyGenExtreme"]
ALL = NATIVE + SCIPY
NONNEG = ["Weibull", "LogNormal", "ExponentiatedWeibull", "GeneralizedGamma", "LogNormalNormFit"]

# admissible range of every single parameter (used to construct dependence targets)
PARAM_RANGE = {
    "Weibull": dict(alpha=(0.3, 12), beta=(0.7, 4), gamma=(0.05, 2.0)),
    "LogNormal": dict(mu=(-1, 2.5), sigma=(0.08, 0.8)),
    "Normal": dict(mu=(-10, 30), sigma=(0.2, 8)),
    "ExponentiatedWeibull": dict(alpha=(0.1, 12), beta=(0.6, 3), delta=(0.4, 20)),
    "GeneralizedGamma": dict(m=(0.5, 8), c=(0.6, 3), lambda_=(0.1, 5)),
    "VonMises": dict(kappa=(0.2, 20), mu=(-2, 2)),
    # (independent dependence functions for mean and standard deviation: the ranges keep the coefficient of
    # variation within [0.03, 6]; a conditional law with cv < 1 % is a ridge that defeats scipy's nquad)
    "LogNormalNormFit": dict(mu_norm=(0.5, 6), sigma_norm=(0.2, 3)),
    "ScipyGamma": dict(a=(0.8, 10), loc=(0.05, 2.0), scale=(0.2, 5)),
    "ScipyGenGamma": dict(a=(0.6, 6), c=(0.6, 3), loc=(0.05, 1.0), scale=(0.2, 5)),
}
# parameters that may be any real number (location-like): targets drawn uniformly
# (a dependent location of a non-negative family is constructed as a positive parameter so that the
# variable stays non-negative for every conditioning value, also in the far tails)
REAL_PARAMS = {("LogNormal", "mu"), ("Normal", "mu"), ("VonMises", "mu")}


def family_params(families=ALL, wide=True):
    table = WIDE if wide else PLAUSIBLE
    return st.sampled_from(list(families)).flatmap(
        lambda fam: table[fam]().map(lambda p: dict(family=fam, params=p))
    )
