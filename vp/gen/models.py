"""Hypothesis strategy for hierarchical model specs (DESIGN 3.2 / 3.3).

Dependence coefficients are *constructed* from target values so that every dependent
parameter stays admissible for all conditioning values >= 0 (all reals for a Normal
conditioner): draw v0 = value at the lower end and v1 = value at the upper end of the
conditioner's bulk range inside the family's plausible range, pick a shape and a
curvature, solve for the remaining coefficients.
"""

import math

import numpy as np
from hypothesis import strategies as st

from vp.gen import families as fam
from vp.oracles import refmodel

CONDITIONER_FAMILIES = ["Weibull", "LogNormal", "ExponentiatedWeibull", "GeneralizedGamma", "LogNormalNormFit"]
TEMPLATE_FAMILIES = ["Weibull", "LogNormal", "Normal", "ExponentiatedWeibull", "GeneralizedGamma", "LogNormalNormFit", "VonMises"]

POS_INC = ["power3", "exp3", "linear2", "poly3", "logistics4", "exp3_sat"]
POS_DEC = ["asymdecrease3", "exp3", "logistics4"]
REAL_ANY = ["power3", "exp3", "linear2", "poly3", "logistics4", "asymdecrease3", "lnsquare2"]


def _map_range(u, lo, hi, log):
    if log:
        return float(math.exp(math.log(lo) + u * (math.log(hi) - math.log(lo))))
    return float(lo + u * (hi - lo))


def solve_shape(shape, v0, v1, x0, x1, k, rlo, real):
    """Coefficients with f(x0)=v0, f(x1)=v1; k in [0,1] is the curvature knob."""
    span = x1 - x0
    if shape == "const1":
        return "const1", [v0]
    if shape == "linear2":
        b = (v1 - v0) / span
        return "linear2", [v0 - b * x0, b]
    if shape == "power3":  # needs x0 == 0
        c = 0.3 + 1.7 * k
        return "power3", [v0, (v1 - v0) / (x1**c), c]
    if shape == "poly3":
        c = k * (v1 - v0) / (x1**2 if x0 == 0 else span**2)
        b = ((v1 - v0) - c * (x1**2 - x0**2)) / span
        a = v0 - b * x0 - c * x0**2
        return "poly3", [a, b, c]
    if shape == "exp3":
        if v1 >= v0:  # growing exponential
            c = (0.1 + 1.4 * k) / span
            b = (v1 - v0) / (math.exp(c * x1) - math.exp(c * x0))
            return "exp3", [v0 - b * math.exp(c * x0), b, c]
        # decaying towards an asymptote a in (rlo, v1)
        a = v1 - (0.1 + 0.8 * k) * (v1 - 0.5 * rlo) if not real else v1 - (0.1 + 0.8 * k) * abs(v0 - v1)
        c = math.log((v1 - a) / (v0 - a)) / span
        b = (v0 - a) / math.exp(c * x0)
        return "exp3", [a, b, c]
    if shape == "exp3_sat":  # increasing, saturating: a + b e^{cx}, b<0, c<0
        a = v1 + (0.1 + 2.0 * k) * (v1 - v0) + 1e-9
        c = math.log((a - v1) / (a - v0)) / span
        b = (v0 - a) / math.exp(c * x0)
        return "exp3", [a, b, c]
    if shape == "asymdecrease3":  # needs x0 == 0 ; a + b/(1+cx)
        if v1 < v0:
            a = v1 - (0.1 + 0.8 * k) * ((v1 - 0.5 * rlo) if not real else abs(v0 - v1))
        else:
            a = v1 + (0.1 + 2.0 * k) * (v1 - v0) + 1e-9
        b = v0 - a
        c = (b / (v1 - a) - 1) / x1
        return "asymdecrease3", [a, b, c]
    if shape == "logistics4":
        # asymptote parametrisation: f stays strictly between v0 and v1 for every real x
        # a + b/(1+exp(c(x-d))) ; increasing for c<0
        d = x0 + (0.25 + 0.5 * k) * span
        steep = (3 + 6 * k) / span
        lo_, hi_ = min(v0, v1), max(v0, v1)
        c = -steep if v1 >= v0 else steep
        return "logistics4", [lo_, hi_ - lo_, c, d]
    if shape == "lnsquare2":  # real params, increasing, needs x0 == 0
        a = math.exp(v0)
        b = (math.exp(v1) - math.exp(v0)) / math.sqrt(x1 / 9.81)
        return "lnsquare2", [a, b]
    raise ValueError(shape)


@st.composite
def dep_spec(draw, family, pname, x0, x1, nontrivial=True, saturating_only=False, poly_ok=False):
    rlo, rhi = fam.PARAM_RANGE[family][pname]
    real = (family, pname) in fam.REAL_PARAMS
    log = not real
    u0 = draw(st.floats(0, 1))
    if nontrivial:
        # |u1-u0| >= 0.15 of the (log-)range
        gap = draw(st.floats(0.15, 1))
        sign = draw(st.sampled_from([-1, 1]))
        u1 = u0 + sign * gap
        if u1 < 0 or u1 > 1:
            u1 = u0 - sign * gap
        u1 = min(1.0, max(0.0, u1))
        if abs(u1 - u0) < 0.1:
            u1 = 1.0 if u0 < 0.5 else 0.0
    else:
        u1 = draw(st.floats(0, 1))
    v0 = _map_range(u0, rlo, rhi, log)
    v1 = _map_range(u1, rlo, rhi, log)
    k = draw(st.floats(0, 1))
    if abs(v0 - v1) <= 1e-9 * max(abs(v0), abs(v1), 1e-3):  # (nearly) equal end values: the shape solvers would divide by / take the log of 0
        v1 = v0
        shape = "const1"
    elif saturating_only:
        # the variable is itself a conditioner: keep its parameters bounded for every conditioning
        # value (an unbounded scale two levels deep overflows: exp(exp(x)))
        if x0 != 0:
            cands = ["logistics4"]
        elif v1 > v0:
            cands = ["logistics4", "exp3_sat", "asymdecrease3"]
            # polynomial growth stays finite for every x the integrators visit - but only for location / scale
            # parameters: a shape parameter of 1e9 (an exponent) overflows inside the density
            if poly_ok and pname in ("mu", "alpha", "sigma", "scale", "mu_norm", "sigma_norm"):
                cands += ["power3", "linear2", "poly3"]
        else:
            cands = ["logistics4", "exp3", "asymdecrease3"]
        shape = draw(st.sampled_from(cands))
    elif real:
        cands = list(REAL_ANY) if x0 == 0 else ["exp3", "linear2", "poly3", "logistics4"]
        if "lnsquare2" in cands and v1 < v0:
            cands.remove("lnsquare2")
        shape = draw(st.sampled_from(cands))
    elif v1 > v0:
        cands = list(POS_INC) if x0 == 0 else ["logistics4"]
        shape = draw(st.sampled_from(cands))
    else:
        cands = list(POS_DEC) if x0 == 0 else ["logistics4", "exp3"]
        shape = draw(st.sampled_from(cands))
    name, coef = solve_shape(shape, v0, v1, x0, x1, k, rlo, real)
    coef = [float(c) for c in coef]
    spec = dict(shape=name, coef=coef)
    if draw(st.integers(0, 9)) == 0 and name in ("logistics4", "linear2"):
        spec["use_defaults"] = True
    return spec


@st.composite
def conditional_level(draw, family, cond_idx, x0, x1, allow_chain=True, nontrivial=True, saturating_only=False, poly_ok=False):
    names = list(fam.PARAM_RANGE[family].keys())
    # every non-empty subset may be dependent
    k = draw(st.integers(1, len(names)))
    dep_names = draw(st.permutations(names))[:k]
    dep_names = [n for n in names if n in dep_names]
    plausible = draw(fam.PLAUSIBLE[family]())
    fixed = {n: plausible[n] for n in names if n not in dep_names}
    if family == "LogNormalNormFit" and len(fixed) == 1:
        # one of (mean, standard deviation) fixed, the other dependent: keep the fixed one inside the range the
        # dependent one is constructed for, so that the coefficient of variation stays within [0.03, 6] (PARAM_RANGE)
        (n_fixed,) = fixed
        lo_, hi_ = fam.PARAM_RANGE[family][n_fixed]
        fixed[n_fixed] = float(min(max(fixed[n_fixed], lo_), hi_))
    dependent = {}
    for n in dep_names:
        dependent[n] = draw(dep_spec(family, n, x0, x1, nontrivial=nontrivial, saturating_only=saturating_only, poly_ok=poly_ok))
    # chained dependence function (alpha3 style): scale parameter depends on the shape's function
    if (
        allow_chain
        and not saturating_only
        and x0 == 0
        and family in ("ExponentiatedWeibull", "Weibull")
        and "alpha" in dependent
        and "beta" in dependent
        and draw(st.integers(0, 3)) == 0
    ):
        rlo, rhi = fam.PARAM_RANGE[family]["alpha"]
        n0 = _map_range(draw(st.floats(0, 0.6)), rlo, rhi, True)
        n1 = n0 * (1 + draw(st.floats(0.2, 3)))
        c = draw(st.floats(0.3, 2))
        dependent["alpha"] = dict(shape="alpha3", coef=[n0, (n1 - n0) / x1**c, c], chain={"d_of_x": "beta"})
    order = draw(st.permutations(list(dependent.keys())))
    dependent = {n: dependent[n] for n in order}
    return dict(family=family, conditional_on=cond_idx, fixed=fixed, dependent=dependent)


@st.composite
def model_spec(
    draw,
    n_dims=(2, 3, 4),
    leaf_families=None,
    conditioner_families=None,
    require_conditional=True,
    allow_scipy=True,
    allow_chain=True,
    allow_normal_conditioner=True,
    nontrivial=True,
    bounded_shapes=False,
):
    n = draw(st.sampled_from(list(n_dims)))
    leafs = list(leaf_families or TEMPLATE_FAMILIES)
    conds = list(conditioner_families or CONDITIONER_FAMILIES)
    # structure
    co = [None]
    for i in range(1, n):
        co.append(draw(st.one_of(st.none(), st.integers(0, i - 1), st.integers(0, i - 1))))
    if require_conditional and all(c is None for c in co):
        co[draw(st.integers(1, n - 1))] = 0
    used_as_cond = {c for c in co if c is not None}
    spec = []
    rng = []
    for i in range(n):
        is_cond = i in used_as_cond
        if is_cond:
            pool = list(conds)
            if allow_normal_conditioner:
                pool = pool + ["Normal"]
        else:
            pool = list(leafs)
        if co[i] is None:
            if allow_scipy and not is_cond:
                pool = pool + ["ScipyGamma", "ScipyGumbelR", "ScipyRayleigh"]
            family = draw(st.sampled_from(pool))
            lvl = dict(family=family, params=draw(fam.PLAUSIBLE[family]()))
        else:
            pool = [f for f in pool if f in fam.PARAM_RANGE]
            family = draw(st.sampled_from(pool))
            x0, x1 = rng[co[i]]
            if spec[co[i]]["family"] != "Normal":
                x0 = 0.0  # non-negative conditioner: dependence functions are evaluated from 0 on
            if not (x1 > x0 + 1e-6):
                x1 = x0 + 1.0
            lvl = draw(conditional_level(family, co[i], float(x0), float(x1), allow_chain=allow_chain, nontrivial=nontrivial, saturating_only=is_cond or bounded_shapes, poly_ok=bounded_shapes and not is_cond))
        spec.append(lvl)
        rng = refmodel.approx_range(spec)
    return spec


def spec_classes(spec):
    out = [f"n_dim={len(spec)}", f"structure={refmodel.structure_name(spec)}"]
    for i, l in enumerate(spec):
        tag = "cond" if l.get("conditional_on") is not None else "marg"
        out.append(f"{tag}:{l['family']}")
        for d in (l.get("dependent") or {}).values():
            out.append(f"shape={d['shape']}")
    return out
