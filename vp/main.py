"""CLI: vcheck <ID> [--tier quick|thorough] [--replay PATH] [--parts a,b] [--scale f]"""

import argparse
import os
import sys
import traceback


def main(argv=None):
    ap = argparse.ArgumentParser(prog="vcheck")
    ap.add_argument("prop")
    ap.add_argument("--tier", default=os.environ.get("VERIF_TIER") or "quick", choices=["quick", "thorough"])
    ap.add_argument("--replay")
    ap.add_argument("--parts")
    ap.add_argument("--scale", type=float, default=1.0)
    args = ap.parse_args(argv)
    try:
        seed = int(os.environ.get("VERIF_SEED", "1") or "1")
    except ValueError:
        seed = 1
    prop = args.prop.upper()

    import warnings

    warnings.filterwarnings("ignore", category=SyntaxWarning)
    from vp import runner

    try:
        if args.replay:
            import numpy as np

            np.seterr(all="ignore")
            rec, ctx = runner.replay_file(prop, args.replay)
            known = runner.load_known(prop)
            rc = 0
            for sig, detail in ctx.violations:
                tag = "KNOWN-FINDING:" if sig in known else "VIOLATION"
                if sig in known:
                    print(f"KNOWN-FINDING: property={prop} {sig} :: {known[sig]}")
                else:
                    print(f"VIOLATION property={prop} replay={os.path.abspath(args.replay)}")
                    rc = 1
                print(f"  signature={sig} detail={detail}")
            if not ctx.violations:
                print(f"[{prop}] replay {args.replay}: property holds on this case")
            return rc
        only = args.parts.split(",") if args.parts else None
        return runner.run_property(prop, args.tier, seed, only_parts=only, n_scale=args.scale)
    except Exception as e:  # noqa: BLE001
        print(f"HARNESS-ERROR: {type(e).__name__}: {e}", file=sys.stderr)
        traceback.print_exc()
        return 2


if __name__ == "__main__":
    sys.exit(main())
