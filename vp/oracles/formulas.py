"""Documented distribution formulas, coded independently of virocon.

Every function takes the *virocon* parameter dict of the family (as in the docs) and
numpy arrays; nothing here imports virocon.  scipy.special only (no scipy.stats), except
for the ScipyDistribution subclasses whose documented meaning *is* "the named scipy law".
"""

import math

import numpy as np
import scipy.special as sp
import scipy.stats as sts

TWO_PI = 2 * math.pi


def _arr(x):
    return np.asarray(x, dtype=float)


# ----------------------------------------------------------------------------- Weibull
def weibull_cdf(x, alpha, beta, gamma):
    x, alpha, beta, gamma = np.broadcast_arrays(_arr(x), _arr(alpha), _arr(beta), _arr(gamma))
    z = np.where(x > gamma, (x - gamma) / alpha, 0.0)
    return np.where(x > gamma, -np.expm1(-(z**beta)), 0.0)


def weibull_pdf(x, alpha, beta, gamma):
    x, alpha, beta, gamma = np.broadcast_arrays(_arr(x), _arr(alpha), _arr(beta), _arr(gamma))
    inside = x > gamma
    z = np.where(inside, (x - gamma) / alpha, 1.0)
    with np.errstate(all="ignore"):
        logf = np.log(beta / alpha) + (beta - 1) * np.log(z) - z**beta
    return np.where(inside, np.exp(logf), 0.0)


def weibull_icdf(p, alpha, beta, gamma):
    p = _arr(p)
    return gamma + alpha * (-np.log1p(-p)) ** (1.0 / beta)


# --------------------------------------------------------------------------- LogNormal
def lognormal_cdf(x, mu, sigma):
    x, mu, sigma = np.broadcast_arrays(_arr(x), _arr(mu), _arr(sigma))
    pos = x > 0
    lx = np.log(np.where(pos, x, 1.0))
    return np.where(pos, sp.ndtr((lx - mu) / sigma), 0.0)


def lognormal_pdf(x, mu, sigma):
    x, mu, sigma = np.broadcast_arrays(_arr(x), _arr(mu), _arr(sigma))
    pos = x > 0
    xs = np.where(pos, x, 1.0)
    lx = np.log(xs)
    f = np.exp(-((lx - mu) ** 2) / (2 * sigma**2) - lx) / (sigma * math.sqrt(TWO_PI))
    return np.where(pos, f, 0.0)


def lognormal_icdf(p, mu, sigma):
    return np.exp(mu + sigma * sp.ndtri(_arr(p)))


# ------------------------------------------------------------------------------ Normal
def normal_cdf(x, mu, sigma):
    return sp.ndtr((_arr(x) - mu) / sigma)


def normal_pdf(x, mu, sigma):
    z = (_arr(x) - mu) / sigma
    return np.exp(-0.5 * z * z) / (sigma * math.sqrt(TWO_PI))


def normal_icdf(p, mu, sigma):
    return mu + sigma * sp.ndtri(_arr(p))


# ------------------------------------------------------------------ LogNormalNormFit
def lnnf_to_mu_sigma(mu_norm, sigma_norm):
    mu_norm = _arr(mu_norm)
    sigma_norm = _arr(sigma_norm)
    s2 = np.log1p(sigma_norm**2 / mu_norm**2)
    return np.log(mu_norm) - 0.5 * s2, np.sqrt(s2)


def lnnf_cdf(x, mu_norm, sigma_norm):
    mu, sigma = lnnf_to_mu_sigma(mu_norm, sigma_norm)
    return lognormal_cdf(x, mu, sigma)


def lnnf_pdf(x, mu_norm, sigma_norm):
    mu, sigma = lnnf_to_mu_sigma(mu_norm, sigma_norm)
    return lognormal_pdf(x, mu, sigma)


def lnnf_icdf(p, mu_norm, sigma_norm):
    mu, sigma = lnnf_to_mu_sigma(mu_norm, sigma_norm)
    return lognormal_icdf(p, mu, sigma)


# ----------------------------------------------------------- Exponentiated Weibull
def _log_one_minus_exp_neg(t):
    """log(1 - exp(-t)) for t > 0 without cancellation at either end."""
    t = _arr(t)
    with np.errstate(all="ignore"):
        return np.where(t > 0.693, np.log1p(-np.exp(-t)), np.log(-np.expm1(-t)))


def ew_cdf(x, alpha, beta, delta):
    x, alpha, beta, delta = np.broadcast_arrays(_arr(x), _arr(alpha), _arr(beta), _arr(delta))
    pos = x > 0
    z = np.where(pos, x / alpha, 1.0)
    with np.errstate(all="ignore"):
        val = np.exp(delta * _log_one_minus_exp_neg(z**beta))
    return np.where(pos, val, 0.0)


def ew_pdf(x, alpha, beta, delta):
    x, alpha, beta, delta = np.broadcast_arrays(_arr(x), _arr(alpha), _arr(beta), _arr(delta))
    pos = x > 0
    z = np.where(pos, x / alpha, 1.0)
    with np.errstate(all="ignore"):
        zb = z**beta
        logf = (
            np.log(delta * beta / alpha)
            + (beta - 1) * np.log(z)
            - zb
            + (delta - 1) * _log_one_minus_exp_neg(zb)
        )
        f = np.exp(logf)
    return np.where(pos, f, 0.0)


def ew_icdf(p, alpha, beta, delta):
    p = _arr(p)
    with np.errstate(all="ignore"):
        q = np.exp(np.log(p) / delta)  # p**(1/delta)
        # -log(1-q) with care for q -> 1
        return alpha * (-np.log1p(-q)) ** (1.0 / beta)


# -------------------------------------------------------------- Generalised gamma
def gg_cdf(x, m, c, lambda_):
    x, m, c, lambda_ = np.broadcast_arrays(_arr(x), _arr(m), _arr(c), _arr(lambda_))
    pos = x > 0
    z = np.where(pos, lambda_ * x, 1.0)
    return np.where(pos, sp.gammainc(m, z**c), 0.0)


def gg_pdf(x, m, c, lambda_):
    x, m, c, lambda_ = np.broadcast_arrays(_arr(x), _arr(m), _arr(c), _arr(lambda_))
    pos = x > 0
    xs = np.where(pos, x, 1.0)
    with np.errstate(all="ignore"):
        logf = (
            np.log(c)
            + c * m * np.log(lambda_)
            + (c * m - 1) * np.log(xs)
            - (lambda_ * xs) ** c
            - sp.gammaln(m)
        )
        f = np.exp(logf)
    return np.where(pos, f, 0.0)


def gg_icdf(p, m, c, lambda_):
    return sp.gammaincinv(m, _arr(p)) ** (1.0 / c) / lambda_


# ----------------------------------------------------------------------- von Mises
def vm_pdf(x, kappa, mu):
    x = _arr(x)
    # exp(kappa cos(x-mu)) / (2 pi I0(kappa)), with the scaled Bessel function
    return np.exp(kappa * (np.cos(x - mu) - 1.0)) / (TWO_PI * sp.i0e(kappa))


_GL_X, _GL_W = np.polynomial.legendre.leggauss(48)


def vm_cdf(x, kappa, mu, panels=64):
    """cdf on [mu-pi, mu+pi] by composite Gauss-Legendre of the documented pdf."""
    x = np.atleast_1d(_arr(x))
    out = np.empty_like(x)
    for i, xi in enumerate(x):
        a, b = mu - math.pi, xi
        edges = np.linspace(a, b, panels + 1)
        h = (edges[1:] - edges[:-1]) / 2
        mid = (edges[1:] + edges[:-1]) / 2
        nodes = mid[:, None] + h[:, None] * _GL_X[None, :]
        out[i] = np.sum(h[:, None] * _GL_W[None, :] * vm_pdf(nodes, kappa, mu))
    return out


# ------------------------------------------------------------------------------------
FAMILIES = {
    "Weibull": dict(
        names=["alpha", "beta", "gamma"],
        cdf=weibull_cdf,
        pdf=weibull_pdf,
        icdf=weibull_icdf,
        lower=lambda p: p["gamma"],
        loc=lambda p: p["gamma"],
    ),
    "LogNormal": dict(
        names=["mu", "sigma"], cdf=lognormal_cdf, pdf=lognormal_pdf, icdf=lognormal_icdf,
        lower=lambda p: 0.0, loc=lambda p: 0.0,
    ),
    "Normal": dict(
        names=["mu", "sigma"], cdf=normal_cdf, pdf=normal_pdf, icdf=normal_icdf,
        lower=lambda p: -np.inf, loc=lambda p: p["mu"],
    ),
    "LogNormalNormFit": dict(
        names=["mu_norm", "sigma_norm"], cdf=lnnf_cdf, pdf=lnnf_pdf, icdf=lnnf_icdf,
        lower=lambda p: 0.0, loc=lambda p: 0.0,
    ),
    "ExponentiatedWeibull": dict(
        names=["alpha", "beta", "delta"], cdf=ew_cdf, pdf=ew_pdf, icdf=ew_icdf,
        lower=lambda p: 0.0, loc=lambda p: 0.0,
    ),
    "GeneralizedGamma": dict(
        names=["m", "c", "lambda_"], cdf=gg_cdf, pdf=gg_pdf, icdf=gg_icdf,
        lower=lambda p: 0.0, loc=lambda p: 0.0,
    ),
    "VonMises": dict(
        names=["kappa", "mu"], cdf=vm_cdf, pdf=vm_pdf, icdf=None,
        lower=lambda p: p["mu"] - math.pi, loc=lambda p: p["mu"],
    ),
}

# ScipyDistribution subclasses: the documented meaning is the named scipy law with
# positional (shapes..., loc, scale)
SCIPY_FAMILIES = {
    "ScipyGamma": ("gamma", ["a", "loc", "scale"]),
    "ScipyGumbelR": ("gumbel_r", ["loc", "scale"]),
    "ScipyRayleigh": ("rayleigh", ["loc", "scale"]),
    "ScipyGenGamma": ("gengamma", ["a", "c", "loc", "scale"]),
    "ScipyGenExtreme": ("genextreme", ["c", "loc", "scale"]),
}


def _scipy_fun(fam, which):
    name, names = SCIPY_FAMILIES[fam]
    dist = getattr(sts, name)
    fn = dict(cdf=dist.cdf, pdf=dist.pdf, icdf=dist.ppf)[which]

    def f(x, **p):
        return fn(x, *[p[n] for n in names])

    return f


for _fam, (_name, _names) in SCIPY_FAMILIES.items():
    FAMILIES[_fam] = dict(
        names=list(_names),
        cdf=_scipy_fun(_fam, "cdf"),
        pdf=_scipy_fun(_fam, "pdf"),
        icdf=_scipy_fun(_fam, "icdf"),
        lower=(lambda p, _n=_name, _ns=_names: getattr(sts, _n).support(*[p[k] for k in _ns])[0]),
        loc=lambda p: p["loc"],
        scipy=True,
    )


# ------------------------------------------------------------- bimodal mixture (C15 / C02)
def bimodal_cdf(x, sep, loc=0.0, scale=1.0):
    """equal mixture of gamma(4) and gamma(4) shifted by sep (in units of scale)"""
    z = (_arr(x) - loc) / scale
    a = np.where(z > 0, sp.gammainc(4.0, np.where(z > 0, z, 1.0)), 0.0)
    b = np.where(z > sep, sp.gammainc(4.0, np.where(z > sep, z - sep, 1.0)), 0.0)
    return 0.5 * a + 0.5 * b


def bimodal_pdf(x, sep, loc=0.0, scale=1.0):
    z = (_arr(x) - loc) / scale

    def g(t):
        tt = np.where(t > 0, t, 1.0)
        return np.where(t > 0, tt**3 * np.exp(-tt) / 6.0, 0.0)

    return (0.5 * g(z) + 0.5 * g(z - sep)) / scale


FAMILIES["ScipyBimodal"] = dict(
    names=["sep", "loc", "scale"], cdf=bimodal_cdf, pdf=bimodal_pdf, icdf=None,
    lower=lambda p: p["loc"], loc=lambda p: p["loc"], scipy=True,
)


def ref(family, which, x, params):
    return FAMILIES[family][which](x, **params)


def param_names(family):
    return list(FAMILIES[family]["names"])
