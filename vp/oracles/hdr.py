"""Highest-density region reconstructed from public outputs of HighestDensityContour (C02, C15)."""

import itertools

import numpy as np

from vp.oracles import refmodel


def cell_probabilities(spec, centers):
    """P[cell] = prod_k [F_k(c_k + d_k/2 | c_cond) - F_k(c_k - d_k/2 | c_cond)]  (harness, from the spec)"""
    n = len(spec)
    deltas = [float(c[1] - c[0]) if len(c) > 1 else 1.0 for c in centers]
    P = np.ones([len(c) for c in centers], dtype=float)
    for k in range(n):
        j = spec[k].get("conditional_on")
        ck = np.asarray(centers[k], dtype=float)
        shape = [1] * n
        if j is None:
            up = refmodel.level_fun(spec, k, "cdf", ck + deltas[k] / 2)
            lo = refmodel.level_fun(spec, k, "cdf", ck - deltas[k] / 2)
            shape[k] = len(ck)
            P = P * (up - lo).reshape(shape)
        else:
            cj = np.asarray(centers[j], dtype=float)
            # explicit loop over conditioning cells with scalar given
            block = np.empty((len(cj), len(ck)))
            for a, g in enumerate(cj):
                up = refmodel.level_fun(spec, k, "cdf", ck + deltas[k] / 2, float(g))
                lo = refmodel.level_fun(spec, k, "cdf", ck - deltas[k] / 2, float(g))
                block[a, :] = up - lo
            idx = [None] * n
            # place axes j and k
            if j < k:
                arr = block
            else:
                arr = block.T
            shape[j] = len(cj)
            shape[k] = len(ck)
            P = P * arr.reshape(shape)
    return P, deltas


def boundary_mask(R):
    """cells of R with at least one of their 3^n-1 neighbours outside R or outside the grid"""
    n = R.ndim
    pad = np.zeros([s + 2 for s in R.shape], dtype=bool)
    pad[tuple(slice(1, -1) for _ in range(n))] = R
    allin = np.ones(R.shape, dtype=bool)
    for off in itertools.product((-1, 0, 1), repeat=n):
        sl = tuple(slice(1 + o, 1 + o + s) for o, s in zip(off, R.shape))
        allin &= pad[sl]
    return R & ~allin


def components(B):
    """connected components of boolean array B under full (3^n - 1) connectivity; returns list of index tuples arrays"""
    n = B.ndim
    lab = -np.ones(B.shape, dtype=int)
    comps = []
    idxs = np.argwhere(B)
    offsets = [o for o in itertools.product((-1, 0, 1), repeat=n) if any(o)]
    for start in idxs:
        t = tuple(start)
        if lab[t] >= 0:
            continue
        cid = len(comps)
        stack = [t]
        lab[t] = cid
        members = []
        while stack:
            c = stack.pop()
            members.append(c)
            for o in offsets:
                q = tuple(ci + oi for ci, oi in zip(c, o))
                if all(0 <= qi < si for qi, si in zip(q, B.shape)) and B[q] and lab[q] < 0:
                    lab[q] = cid
                    stack.append(q)
        comps.append(np.array(members))
    return comps
