"""Reference integrals of a hierarchical model spec by adaptive 1-D quadrature (harness only).

P(X <= x), marginal pdf and marginal cdf are written as nested integrals over the
*ancestor chain* only (each level has at most one parent), using the conditional cdf /
pdf of the documented formulas -- a route that never integrates the joint pdf the way
virocon does (nquad over all variables).
"""

import numpy as np
from scipy import integrate

from vp.oracles import refmodel
from vp.oracles import formulas as F

QPTS = [1e-9, 1e-6, 1e-4, 1e-3, 0.01, 0.05, 0.1, 0.2, 0.3, 0.4, 0.5, 0.6, 0.7, 0.8, 0.9, 0.95, 0.99, 0.999, 1 - 1e-4, 1 - 1e-6, 1 - 1e-9]


def _lvl(spec, i, which, x, given):
    return float(refmodel.level_fun(spec, i, which, x, given))


def _integrate(fun, spec, i, given, upper=None):
    """int fun(t) dt over the support of level i (given its parent's value), up to `upper`."""
    pts = np.array([_lvl(spec, i, "icdf", q, given) for q in QPTS])
    pts = pts[np.isfinite(pts)]
    lo, hi = pts[0], pts[-1]
    if upper is not None:
        if upper <= lo:
            # below the 1e-9 quantile: integrate the thin sliver directly
            lower = F.FAMILIES[spec[i]["family"]]["lower"](refmodel.level_params(spec[i], given))
            a = lower if np.isfinite(lower) else upper - 50 * abs(hi - lo)
            val, err = integrate.quad(fun, a, upper, limit=200)
            return val, err
        hi = min(hi, upper)
    edges = [lo] + [p for p in pts[1:-1] if lo < p < hi] + [hi]
    tot = 0.0
    err = 0.0
    for a, b in zip(edges[:-1], edges[1:]):
        v, e = integrate.quad(fun, a, b, limit=100, epsabs=1e-13, epsrel=1e-10)
        tot += v
        err += e
    return tot, err


def children(spec, i):
    return [k for k, l in enumerate(spec) if l.get("conditional_on") == i]


def joint_cdf(spec, x):
    """P(X_k <= x_k for all k).  Recursion over the forest of conditional_on."""
    x = np.asarray(x, dtype=float)
    err_box = [0.0]

    def subtree_given(i, parent_val):
        """P(X_i <= x_i and all descendants <= | parent value)"""
        kids = children(spec, i)
        if not kids:
            return _lvl(spec, i, "cdf", x[i], parent_val)

        def integrand(t):
            v = _lvl(spec, i, "pdf", t, parent_val)
            if v == 0.0:
                return 0.0
            for k in kids:
                v *= subtree_given(k, t)
            return v

        val, err = _integrate(integrand, spec, i, parent_val, upper=x[i])
        err_box[0] += err
        return val

    p = 1.0
    for i, l in enumerate(spec):
        if l.get("conditional_on") is None:
            p *= subtree_given(i, None)
    return p, err_box[0]


def ancestors(spec, dim):
    chain = []
    j = spec[dim].get("conditional_on")
    while j is not None:
        chain.append(j)
        j = spec[j].get("conditional_on")
    return chain  # parent first


def marginal(spec, dim, x, which):
    """marginal pdf / cdf of variable `dim` at x: integral over its ancestor chain."""
    chain = ancestors(spec, dim)
    err_box = [0.0]

    def down(idx, parent_val):
        # idx indexes chain from the top (last element) down to 0; then dim itself
        if idx < 0:
            return _lvl(spec, dim, which, x, parent_val)
        i = chain[idx]

        def integrand(t):
            v = _lvl(spec, i, "pdf", t, parent_val)
            if v == 0.0:
                return 0.0
            return v * down(idx - 1, t)

        val, err = _integrate(integrand, spec, i, parent_val)
        err_box[0] += err
        return val

    return down(len(chain) - 1, None), err_box[0]
