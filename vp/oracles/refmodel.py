"""Reference semantics of a hierarchical model *spec* (never touches virocon objects).

A model spec is a list of levels
    {"family": F, "params": {...}}                                          unconditional
    {"family": F, "conditional_on": j, "fixed": {...}, "dependent": {p: depspec}}
"""

import numpy as np
import scipy.special as sp

from vp.gen import depshapes
from vp.oracles import formulas as F


def resolve_dep(level, pname):
    """depspec of parameter pname with chained references resolved to specs."""
    d = level["dependent"][pname]
    if d.get("chain"):
        d = dict(d)
        d["chain"] = {
            k: (resolve_dep(level, v) if isinstance(v, str) else v) for k, v in d["chain"].items()
        }
    return d


def level_params(level, given=None):
    """Parameter dict of a level at conditioning value(s) `given` (arrays broadcast)."""
    if level.get("conditional_on") is None:
        return dict(level["params"])
    out = {}
    for name in F.param_names(level["family"]):
        if name in level["dependent"]:
            out[name] = depshapes.evaluate(resolve_dep(level, name), given)
        else:
            out[name] = level["fixed"][name]
    return out


def _cond(spec, i, X):
    j = spec[i].get("conditional_on")
    return None if j is None else X[..., j]


def level_fun(spec, i, which, x, given=None):
    lvl = spec[i]
    p = level_params(lvl, given)
    if F.FAMILIES[lvl["family"]][which] is None:  # von Mises has no closed-form icdf (always a leaf)
        return np.full(np.shape(x), np.nan)
    return np.asarray(F.ref(lvl["family"], which, x, p), dtype=float)


def pdf(spec, X):
    X = np.atleast_2d(np.asarray(X, dtype=float))
    out = np.ones(X.shape[0])
    for i in range(len(spec)):
        out = out * level_fun(spec, i, "pdf", X[:, i], _cond(spec, i, X))
    return out


def rosenblatt_p(spec, X):
    """Row-wise conditional probabilities p_ik = F_k(x_ik | x_i,cond(k))."""
    X = np.atleast_2d(np.asarray(X, dtype=float))
    P = np.empty_like(X)
    for i in range(len(spec)):
        P[:, i] = level_fun(spec, i, "cdf", X[:, i], _cond(spec, i, X))
    return P


def inverse_rosenblatt(spec, P):
    P = np.atleast_2d(np.asarray(P, dtype=float))
    X = np.empty_like(P)
    for i in range(len(spec)):
        X[:, i] = level_fun(spec, i, "icdf", P[:, i], _cond(spec, i, X))
    return X


def approx_range(spec, lo_q=1e-3, hi_q=1 - 1e-3):
    """Rough [lo, hi] per variable: quantiles at the ends of the conditioner's range."""
    rng = []
    for i, lvl in enumerate(spec):
        fam = lvl["family"]
        if fam == "VonMises":
            mu = lvl["params"]["mu"] if lvl.get("conditional_on") is None else 0.0
            rng.append((mu - np.pi, mu + np.pi))
            continue
        j = lvl.get("conditional_on")
        if j is None:
            lo = float(level_fun(spec, i, "icdf", lo_q))
            hi = float(level_fun(spec, i, "icdf", hi_q))
        else:
            g = np.linspace(rng[j][0], rng[j][1], 5)
            lo = float(np.nanmin(level_fun(spec, i, "icdf", lo_q, g)))
            hi = float(np.nanmax(level_fun(spec, i, "icdf", hi_q, g)))
        rng.append((lo, hi))
    return rng


def structure_name(spec):
    co = [l.get("conditional_on") for l in spec]
    n = len(spec)
    conds = [c for c in co if c is not None]
    if not conds:
        return "independent"
    if n == 2:
        return "pair"
    chain = any(c is not None and co[c] is not None for c in co)
    star = len(conds) >= 2 and len(set(conds)) < len(conds)
    if chain and star:
        return "mixed"
    if chain:
        return "chain"
    if star:
        return "star"
    if len(conds) == n - 1:
        return "mixed"
    return "partial"


def dependence_variation(spec, i, rng):
    """max relative variation of the dependent parameters of level i over the conditioner's range"""
    lvl = spec[i]
    j = lvl.get("conditional_on")
    if j is None:
        return 0.0
    g = np.linspace(rng[j][0], rng[j][1], 9)
    worst = 0.0
    for name in lvl["dependent"]:
        v = np.asarray(depshapes.evaluate(resolve_dep(lvl, name), g), dtype=float)
        scale = max(np.max(np.abs(v)), 1e-12)
        worst = max(worst, float((np.max(v) - np.min(v)) / scale))
    return worst


def norm_ppf(p):
    return sp.ndtri(p)


def norm_cdf(u):
    return sp.ndtr(u)
