"""Deep structural snapshots and id-graphs of virocon objects (C19)."""

import functools
import types

import numpy as np

ATOMS = (int, float, complex, str, bytes, bool, type(None))


def snapshot(obj, _seen=None, _depth=0):
    """A nested, comparable (==) description of everything reachable from obj."""
    if _seen is None:
        _seen = {}
    if isinstance(obj, ATOMS):
        return obj
    if isinstance(obj, (np.floating, np.integer, np.bool_)):
        return obj.item()
    if isinstance(obj, np.ndarray):
        if obj.dtype == object:
            return ("ndarray_obj", [snapshot(o, _seen, _depth + 1) for o in obj.ravel().tolist()], obj.shape)
        return ("ndarray", obj.shape, str(obj.dtype), obj.tobytes())
    if isinstance(obj, np.random.Generator):
        return ("Generator", repr(obj.bit_generator.state))  # a generator that advanced is a changed object
    if isinstance(obj, np.random.RandomState):
        return ("RandomState", repr(obj.get_state()))
    oid = id(obj)
    if oid in _seen:
        return ("ref", _seen[oid])
    _seen[oid] = len(_seen)
    if isinstance(obj, (list, tuple)):
        return (type(obj).__name__, [snapshot(o, _seen, _depth + 1) for o in obj])
    if isinstance(obj, dict):
        return ("dict", [(snapshot(k, _seen, _depth + 1), snapshot(v, _seen, _depth + 1)) for k, v in obj.items()])
    if isinstance(obj, (set, frozenset)):
        return ("set", len(obj))
    if isinstance(obj, functools.partial):
        return ("partial", snapshot(obj.func, _seen, _depth + 1), snapshot(obj.args, _seen, _depth + 1), snapshot(obj.keywords, _seen, _depth + 1))
    if isinstance(obj, (types.FunctionType, types.BuiltinFunctionType, types.MethodType, type)):
        return ("callable", getattr(obj, "__qualname__", repr(obj)))
    if hasattr(obj, "__dict__"):
        mod = type(obj).__module__ or ""
        if not (mod.startswith("virocon") or mod.startswith("vp.")):
            return ("foreign", type(obj).__name__)
        return (type(obj).__name__, [(k, snapshot(v, _seen, _depth + 1)) for k, v in sorted(vars(obj).items())])
    return ("other", type(obj).__name__)


def mutable_ids(obj, _acc=None):
    """ids of all mutable container / instance nodes reachable from obj (functions and classes excluded)"""
    if _acc is None:
        _acc = {}
    if isinstance(obj, ATOMS) or isinstance(obj, (np.floating, np.integer, np.bool_)):
        return _acc
    if isinstance(obj, (types.FunctionType, types.BuiltinFunctionType, types.MethodType, type, types.ModuleType)):
        return _acc
    oid = id(obj)
    if oid in _acc:
        return _acc
    if isinstance(obj, np.ndarray):
        _acc[oid] = "ndarray"
        return _acc
    if isinstance(obj, tuple):
        for o in obj:
            mutable_ids(o, _acc)
        return _acc
    if isinstance(obj, (list, set)):
        _acc[oid] = type(obj).__name__
        for o in obj:
            mutable_ids(o, _acc)
        return _acc
    if isinstance(obj, dict):
        _acc[oid] = "dict"
        for k, v in obj.items():
            mutable_ids(v, _acc)
        return _acc
    if isinstance(obj, functools.partial):
        _acc[oid] = "partial"
        mutable_ids(obj.keywords, _acc)
        mutable_ids(obj.args, _acc)
        return _acc
    if hasattr(obj, "__dict__"):
        mod = type(obj).__module__ or ""
        if mod.startswith("virocon") or mod.startswith("vp."):
            _acc[oid] = type(obj).__name__
            for v in vars(obj).values():
                mutable_ids(v, _acc)
    return _acc
