"""Distribution-free statistical bounds (DESIGN 4): DKW, Hoeffding, order-statistic Beta."""

import math

import numpy as np
import scipy.special as sp

DELTA = 1e-12  # error probability per comparison


def dkw_eps(n, delta=DELTA):
    return math.sqrt(math.log(2.0 / delta) / (2.0 * n))


def hoeffding_eps(n, width=1.0, delta=DELTA):
    """two-sided bound on |mean - E| for i.i.d. variables with range `width`"""
    return width * math.sqrt(math.log(2.0 / delta) / (2.0 * n))


def ks_stat(u):
    """sup |ecdf - uniform cdf| of values u in [0,1]"""
    u = np.sort(np.asarray(u, dtype=float))
    n = len(u)
    i = np.arange(1, n + 1)
    return float(max(np.max(i / n - u), np.max(u - (i - 1) / n)))


def beta_interval(k, n, delta=DELTA):
    """[lo, hi] with P(F(X_(k)) outside) <= delta, F(X_(k)) ~ Beta(k, n+1-k)"""
    lo = sp.betaincinv(k, n + 1 - k, delta / 2)
    hi = sp.betaincinv(k, n + 1 - k, 1 - delta / 2)
    return float(lo), float(hi)


def quantile_prob_interval(p, n, delta=DELTA):
    """Interval that F(sample p-quantile) must fall into for an i.i.d. sample of size n
    (np.quantile's linear interpolation lies between two adjacent order statistics)."""
    h = (n - 1) * p
    k_lo = int(math.floor(h)) + 1
    k_hi = min(n, k_lo + 1)
    lo, _ = beta_interval(k_lo, n, delta)
    _, hi = beta_interval(k_hi, n, delta)
    return lo, hi


def binom_interval(n, p, delta=DELTA):
    """[lo, hi] fraction interval for a Binomial(n, p)/n count with error probability delta"""
    from scipy.stats import binom

    lo = binom.ppf(delta / 2, n, p) / n
    hi = binom.ppf(1 - delta / 2, n, p) / n
    return float(lo), float(hi)
