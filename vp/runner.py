"""Shard pool, Hypothesis driver, collect-then-shrink loop, evidence writer.

A property module (vp/checks/cNN.py) exposes

    ID, LEVEL, RULE, ASSUMPTIONS, PARTS = [Part(...), ...]

A Part is a generator (Hypothesis strategy or exhaustive enumerator) plus a check
function ``check(case, ctx)`` that reports through the Ctx object.  Cases are plain
JSON-serialisable specs, so a shrunk failure is its own replay file.
"""

import hashlib
import importlib
import json
import math
import os
import sys
import time
import traceback
from collections import Counter
from concurrent.futures import ProcessPoolExecutor, as_completed
import multiprocessing as mp

ROOT = os.path.dirname(os.path.dirname(os.path.abspath(__file__)))
N_WORKERS = int(os.environ.get("VP_WORKERS", "16"))
MAX_ROUNDS = 8


# --------------------------------------------------------------------------------------
# public API used by the check modules
# --------------------------------------------------------------------------------------
class Part:
    def __init__(
        self,
        name,
        check,
        strategy=None,
        enumerate=None,
        quick=200,
        thorough=2000,
        shrink=True,
        shrink_quick=None,
        max_workers=None,
        min_nontrivial_frac=0.0,
        min_per_shard=8,
        doc="",
    ):
        self.name = name
        self.check = check
        self.strategy = strategy  # callable(tier) -> hypothesis strategy
        self.enumerate = enumerate  # callable(tier, shard, nshards) -> iterator of cases
        self.quick = quick
        self.thorough = thorough
        self.shrink = shrink
        self.shrink_quick = shrink if shrink_quick is None else shrink_quick
        self.max_workers = max_workers
        self.min_nontrivial_frac = min_nontrivial_frac
        self.min_per_shard = min_per_shard
        self.doc = doc


class Ctx:
    """Collects what a single case produced."""

    def __init__(self):
        self.violations = []  # (signature, detail)
        self.classes = []
        self.is_nontrivial = False
        self.rejected = 0
        self.extra_evals = 0
        self.notes = []

    def violation(self, signature, detail=""):
        self.violations.append((str(signature), str(detail)[:2000]))

    def cls(self, *names):
        self.classes.extend(str(n) for n in names)

    def nontrivial(self, flag=True):
        if flag:
            self.is_nontrivial = True

    def rejected_by_contract(self, n=1):
        self.rejected += n

    def count(self, n=1):
        self.extra_evals += n

    def note(self, text):
        self.notes.append(str(text)[:300])

    # convenience: run a callable of the code under test where the property promises a
    # result; an exception becomes a violation with a site-specific signature
    def call(self, site, fn, *a, **k):
        try:
            return True, fn(*a, **k)
        except Exception as e:  # noqa: BLE001 - deliberately broad, reported not hidden
            self.violation(f"raises:{site}:{type(e).__name__}", f"{type(e).__name__}: {e}")
            return False, None


class HarnessError(Exception):
    pass


class CaseTimeout(BaseException):
    """a single call of the code under test exceeded its wall-clock budget: inconclusive, never a violation"""


class time_limit:
    """with time_limit(30): ...   raises CaseTimeout in the (main thread of the) worker process"""

    def __init__(self, seconds):
        self.seconds = seconds

    def _handler(self, signum, frame):
        raise CaseTimeout()

    def __enter__(self):
        import signal

        self._old = signal.signal(signal.SIGALRM, self._handler)
        signal.setitimer(signal.ITIMER_REAL, self.seconds)
        return self

    def __exit__(self, *exc):
        import signal

        signal.setitimer(signal.ITIMER_REAL, 0)
        signal.signal(signal.SIGALRM, self._old)
        return False


class _Found(Exception):
    pass


def canon(case):
    return json.dumps(case, sort_keys=True, default=_json_default)


def _json_default(o):
    import numpy as np

    if isinstance(o, (np.integer,)):
        return int(o)
    if isinstance(o, (np.floating,)):
        return float(o)
    if isinstance(o, np.ndarray):
        return o.tolist()
    if isinstance(o, (set, tuple)):
        return list(o)
    raise TypeError(f"not JSON serialisable: {type(o)}")


def case_hash(case):
    return hashlib.sha1(canon(case).encode()).hexdigest()[:16]


def derive_seed(*parts):
    h = hashlib.sha256("|".join(str(p) for p in parts).encode()).digest()
    return int.from_bytes(h[:8], "big") % (2**63)


# --------------------------------------------------------------------------------------
# findings
# --------------------------------------------------------------------------------------
class KnownSet:
    """Signatures of status=known findings; '*' wildcards allowed (fnmatch)."""

    def __init__(self, entries):
        self.entries = entries  # list of (pattern, what, id)
        self._cache = {}

    def match(self, sig):
        if sig not in self._cache:
            import fnmatch

            hit = None
            for pat, what, fid in self.entries:
                if sig == pat or fnmatch.fnmatchcase(sig, pat):
                    hit = (pat, what, fid)
                    break
            self._cache[sig] = hit
        return self._cache[sig]

    def __contains__(self, sig):
        return self.match(sig) is not None

    def __getitem__(self, sig):
        return self.match(sig)[1]

    def finding_id(self, sig):
        return self.match(sig)[2]


def load_known(prop_id):
    path = os.path.join(ROOT, "known_findings.jsonl")
    entries = []
    if os.path.exists(path):
        for line in open(path):
            line = line.strip()
            if not line or line.startswith("#"):
                continue
            rec = json.loads(line)
            if rec.get("property") == prop_id and rec.get("status") == "known":
                sigs = rec["signature"] if isinstance(rec["signature"], list) else [rec["signature"]]
                for sg in sigs:
                    entries.append((sg, rec.get("what", ""), rec.get("id") or sg))
    return KnownSet(entries)


# --------------------------------------------------------------------------------------
# worker
# --------------------------------------------------------------------------------------
def _setup_import_root():
    root = os.environ.get("VP_REPO_ROOT")
    if root and root not in sys.path:
        sys.path.insert(0, root)


def _load_part(prop_id, part_name):
    _setup_import_root()
    mod = importlib.import_module(f"vp.checks.{prop_id.lower()}")
    for p in mod.PARTS:
        if p.name == part_name:
            return mod, p
    raise HarnessError(f"no part {part_name} in {prop_id}")


def _empty_result(part_name):
    return dict(
        part=part_name,
        evaluations=0,
        nontrivial=[],
        classes={},
        samples=[],
        violations=[],
        known_hits={},
        rejected=0,
        inconclusive=False,
        harness_error=None,
        wall=0.0,
        notes=[],
    )


def run_case(part, case, res, nontriv, classes, known, excluded, notes):
    """Run one case; returns list of *new* (sig, detail)."""
    ctx = Ctx()
    trace = os.environ.get("VP_TRACE")
    if trace:
        t_ = time.time()
        with open(trace, "a") as fh:
            fh.write(f"START {os.getpid()} {part.name} {case_hash(case)} {canon(case)[:3000]}\n")
    part.check(case, ctx)
    if trace:
        with open(trace, "a") as fh:
            fh.write(f"END {os.getpid()} {part.name} {case_hash(case)} {time.time() - t_:.1f}s\n")
    res["evaluations"] += 1 + ctx.extra_evals
    res["rejected"] += ctx.rejected
    for c in ctx.classes:
        classes[c] += 1
    if ctx.is_nontrivial:
        nontriv.add(case_hash(case))
    for n in ctx.notes:
        if len(notes) < 20 and n not in notes:
            notes.append(n)
    new = []
    survey = bool(os.environ.get("VP_SURVEY"))
    for sig, detail in ctx.violations:
        if survey:  # triage aid: count every signature, never stop
            res["known_hits"]["survey:" + sig] = res["known_hits"].get("survey:" + sig, 0) + 1
            continue
        if sig in known:
            res["known_hits"][sig] = res["known_hits"].get(sig, 0) + 1
            res.setdefault("known_cases", {}).setdefault(sig, dict(case=case, detail=detail))
        elif sig in excluded:
            pass
        else:
            new.append((sig, detail))
    return new


def shard_worker(prop_id, part_name, tier, seed, shard, nshards, n_examples, budget_s):
    t0 = time.time()
    res = _empty_result(part_name)
    try:
        import warnings

        warnings.filterwarnings("ignore", category=SyntaxWarning)
        import numpy as np

        np.seterr(all="ignore")
        mod, part = _load_part(prop_id, part_name)
        known = load_known(prop_id)
        nontriv = set()
        classes = Counter()
        notes = []
        excluded = set()
        deadline = t0 + budget_s

        if part.enumerate is not None:
            for case in part.enumerate(tier, shard, nshards):
                if time.time() > deadline:
                    res["inconclusive"] = True
                    break
                if len(res["samples"]) < 2:
                    res["samples"].append(case)
                new = run_case(part, case, res, nontriv, classes, known, excluded, notes)
                for sig, detail in new:
                    excluded.add(sig)
                    res["violations"].append(dict(sig=sig, detail=detail, case=case))
        else:
            from hypothesis import given, settings, seed as hseed, HealthCheck, Phase, Verbosity
            from hypothesis import errors as herr

            strat = part.strategy(tier)
            do_shrink = part.shrink if tier == "thorough" else part.shrink_quick
            phases = [Phase.generate] + ([Phase.shrink] if do_shrink else [])
            # Hypothesis always starts with the all-minimal example: with one or two examples per shard every
            # shard would run the same case, so tiny shards draw one more example and skip that first one
            skip_first = n_examples <= 3
            for rnd in range(MAX_ROUNDS):
                state = dict(target=None, last=None, detail=None, calls=0)

                def body(case):
                    state["calls"] += 1
                    if skip_first and state["calls"] == 1 and state["target"] is None:
                        return
                    if time.time() > deadline:
                        res["inconclusive"] = True
                        return
                    if len(res["samples"]) < 2 and rnd == 0 and state["target"] is None:
                        res["samples"].append(case)
                    new = run_case(part, case, res, nontriv, classes, known, excluded, notes)
                    if not new:
                        return
                    if state["target"] is None:
                        state["target"] = new[0][0]
                    for sig, detail in new:
                        if sig == state["target"]:
                            state["last"] = case
                            state["detail"] = detail
                            raise _Found(sig)

                test = given(case=strat)(body)
                test = settings(
                    max_examples=max(1, n_examples) + (1 if skip_first else 0),
                    database=None,
                    deadline=None,
                    report_multiple_bugs=False,
                    suppress_health_check=[HealthCheck.too_slow, HealthCheck.data_too_large],
                    phases=phases,
                    verbosity=Verbosity.quiet,
                    print_blob=False,
                )(test)
                test = hseed(derive_seed(seed, prop_id, part_name, shard))(test)
                try:
                    test()
                    break
                except _Found:
                    sig = state["target"]
                    excluded.add(sig)
                    res["violations"].append(
                        dict(sig=sig, detail=state["detail"], case=state["last"])
                    )
                    if time.time() > deadline:
                        res["inconclusive"] = True
                        break
                    continue
                except (herr.FailedHealthCheck, herr.Unsatisfiable, herr.InvalidArgument) as e:
                    res["harness_error"] = f"{type(e).__name__}: {e}"
                    break
                except BaseException as e:  # noqa: BLE001
                    # e.g. FlakyFailure when the wall-clock guard cut the confirming replay short:
                    # the recorded failing case is still a real observation
                    if state["target"] is not None and state["last"] is not None:
                        excluded.add(state["target"])
                        res["violations"].append(
                            dict(sig=state["target"], detail=state["detail"], case=state["last"])
                        )
                        if time.time() > deadline:
                            res["inconclusive"] = True
                            break
                        continue
                    raise
        res["nontrivial"] = sorted(nontriv)
        res["classes"] = dict(classes)
        res["notes"] = notes
    except BaseException as e:  # noqa: BLE001
        res["harness_error"] = f"{type(e).__name__}: {e}\n{traceback.format_exc()}"
    res["wall"] = time.time() - t0
    return res


# --------------------------------------------------------------------------------------
# replay / regressions (no Hypothesis)
# --------------------------------------------------------------------------------------
def replay_file(prop_id, path):
    rec = json.load(open(path))
    _, part = _load_part(prop_id, rec["part"])
    ctx = Ctx()
    part.check(rec["case"], ctx)
    return rec, ctx


# --------------------------------------------------------------------------------------
# main driver
# --------------------------------------------------------------------------------------
def slug(s):
    out = "".join(c if c.isalnum() or c in "-_." else "_" for c in s)
    return out[:80]


def run_property(prop_id, tier, seed, only_parts=None, n_scale=1.0):
    t0 = time.time()
    _setup_import_root()
    mod = importlib.import_module(f"vp.checks.{prop_id.lower()}")
    known = load_known(prop_id)
    budget = float(os.environ.get("VP_BUDGET_S", 540 if tier == "quick" else 3300))

    lines = []
    violations = []  # (sig, detail, case, part, replay_path)
    known_seen = Counter()
    harness_errors = []

    # 1. regressions
    reg_dir = os.path.join(ROOT, "regressions", prop_id)
    reg_evals = 0
    reg_nontrivial = set()
    if os.path.isdir(reg_dir):
        for fn in sorted(os.listdir(reg_dir)):
            if not fn.endswith(".json"):
                continue
            path = os.path.join(reg_dir, fn)
            try:
                rec, ctx = replay_file(prop_id, path)
            except Exception as e:  # noqa: BLE001
                harness_errors.append(f"regression {fn}: {type(e).__name__}: {e}\n{traceback.format_exc()}")
                continue
            reg_evals += 1
            if ctx.is_nontrivial:
                reg_nontrivial.add(case_hash(rec["case"]))
            for sig, detail in ctx.violations:
                if sig in known:
                    known_seen[sig] += 1
                else:
                    violations.append((sig, detail, rec["case"], rec["part"], path))

    # 2. generated parts
    parts = [p for p in mod.PARTS if (only_parts is None or p.name in only_parts)]
    tasks = []
    for p in parts:
        n_total = p.quick if tier == "quick" else p.thorough
        if n_total <= 0:
            continue  # part not run in this tier
        n_total = max(1, int(n_total * n_scale))
        k = min(N_WORKERS, p.max_workers or N_WORKERS)
        if p.enumerate is None:
            k = max(1, min(k, n_total // p.min_per_shard or 1))
        per = int(math.ceil(n_total / k))
        for shard in range(k):
            tasks.append((prop_id, p.name, tier, seed, shard, k, per, budget))

    results = []
    if tasks:
        ctxm = mp.get_context("spawn")
        with ProcessPoolExecutor(max_workers=min(N_WORKERS, len(tasks)), mp_context=ctxm) as ex:
            futs = [ex.submit(shard_worker, *t) for t in tasks]
            for f in as_completed(futs):
                try:
                    results.append(f.result())
                except Exception as e:  # noqa: BLE001
                    harness_errors.append(f"worker died: {type(e).__name__}: {e}")

    per_part = {}
    total_evals = reg_evals
    nontrivial_all = set(reg_nontrivial)
    classes_all = Counter()
    samples = []
    rejected = 0
    inconclusive = False
    notes = []
    best_by_sig = {}
    for r in results:
        pp = per_part.setdefault(
            r["part"], dict(evaluations=0, distinct_nontrivial=set(), shards=0, wall_max=0.0)
        )
        pp["evaluations"] += r["evaluations"]
        pp["distinct_nontrivial"].update(r["nontrivial"])
        pp["shards"] += 1
        pp["wall_max"] = max(pp["wall_max"], r["wall"])
        total_evals += r["evaluations"]
        nontrivial_all.update(f"{r['part']}:{h}" for h in r["nontrivial"])
        for c, n in r["classes"].items():
            classes_all[f"{r['part']}/{c}"] += n
        rejected += r["rejected"]
        inconclusive = inconclusive or r["inconclusive"]
        for n in r["notes"]:
            if len(notes) < 30 and n not in notes:
                notes.append(n)
        if r["harness_error"]:
            harness_errors.append(f"{r['part']}: {r['harness_error']}")
        for s in r["samples"]:
            if sum(1 for x in samples if x["part"] == r["part"]) < 2:
                samples.append(dict(part=r["part"], case=s))
        for sig, n in r["known_hits"].items():
            known_seen[sig] += n
        for v in r["violations"]:
            key = (r["part"], v["sig"])
            size = len(canon(v["case"]))
            if key not in best_by_sig or size < best_by_sig[key][0]:
                best_by_sig[key] = (size, v)
    for (part_name, sig), (_, v) in sorted(best_by_sig.items()):
        rdir = os.path.join(os.environ.get("VP_REPLAY_DIR") or os.path.join(ROOT, "replays"), prop_id)
        os.makedirs(rdir, exist_ok=True)
        path = os.path.join(rdir, f"{slug(sig)}-{case_hash(v['case'])}.json")
        with open(path, "w") as fh:
            json.dump(
                dict(property=prop_id, part=part_name, signature=sig, detail=v["detail"], case=v["case"]),
                fh,
                indent=1,
                default=_json_default,
            )
        violations.append((sig, v["detail"], v["case"], part_name, path))

    # incidence guard for statistical known findings
    known_cases = {}
    for r in results:
        for sig, kc in (r.get("known_cases") or {}).items():
            known_cases.setdefault(sig, (r["part"], kc))
    for prefix, cls_name, max_frac, min_den in getattr(mod, "RATE_LIMITS", []):
        hits = sum(n for sig, n in known_seen.items() if sig.startswith(prefix))
        den = classes_all.get(cls_name, 0)
        if den >= min_den and hits / den > max_frac:
            sig0 = next(sig for sig in known_seen if sig.startswith(prefix))
            part_name, kc = known_cases.get(sig0, (None, None))
            rdir = os.path.join(os.environ.get("VP_REPLAY_DIR") or os.path.join(ROOT, "replays"), prop_id)
            os.makedirs(rdir, exist_ok=True)
            path = os.path.join(rdir, f"rate-{slug(prefix)}.json")
            detail = f"known finding '{prefix}' occurred in {hits} of {den} cases ({hits / den:.1%}), limit {max_frac:.0%}: more frequent than the recorded finding"
            with open(path, "w") as fh:
                json.dump(dict(property=prop_id, part=part_name, signature=f"rate:{prefix}", detail=detail, case=(kc or {}).get("case")), fh, indent=1, default=_json_default)
            violations.append((f"rate:{prefix}", detail, (kc or {}).get("case"), part_name, path))

    # vacuity guard: a part whose non-trivial share is below its declared minimum is a
    # harness problem, not a pass
    for p in parts:
        pp = per_part.get(p.name)
        part_has_violation = any(k[0] == p.name for k in best_by_sig)
        if pp and p.min_nontrivial_frac > 0 and pp["evaluations"] > 20 and not part_has_violation:
            frac = len(pp["distinct_nontrivial"]) / pp["evaluations"]
            if frac < p.min_nontrivial_frac:
                harness_errors.append(
                    f"part {p.name}: non-trivial share {frac:.3f} below required {p.min_nontrivial_frac}"
                )

    wall = time.time() - t0
    by_id = {}
    for sig, n in sorted(known_seen.items()):
        if sig.startswith("survey:"):
            lines.append(f"SURVEY {sig[7:]} x{n}")
            continue
        g = by_id.setdefault(known.finding_id(sig), dict(what=known[sig], n=0, sigs=[]))
        g["n"] += n
        g["sigs"].append(sig)
    for fid, g in sorted(by_id.items()):
        lines.append(f"KNOWN-FINDING: property={prop_id} {fid} {g['what']} (re-observed {g['n']}x as {', '.join(g['sigs'])})")
    dump = os.environ.get("VP_DUMP_KNOWN")
    if dump:
        os.makedirs(dump, exist_ok=True)
        for sig, (part_name, kc) in known_cases.items():
            with open(os.path.join(dump, f"{slug(str(known.finding_id(sig)))}_{slug(sig)}.json"), "w") as fh:
                json.dump(dict(property=prop_id, part=part_name, signature=sig, detail=kc["detail"], case=kc["case"]), fh, indent=1, default=_json_default)
    for sig, detail, case, part_name, path in violations:
        lines.append(f"VIOLATION property={prop_id} replay={path}")
        lines.append(f"  signature={sig} part={part_name} detail={detail[:300]}")

    evidence = dict(
        property_id=prop_id,
        tier=tier,
        seed=int(seed),
        level=mod.LEVEL,
        coverage=dict(
            evaluations=int(total_evals),
            distinct_nontrivial=int(len(nontrivial_all)),
            rule=mod.RULE,
            samples=samples[:12],
            exhaustive=bool(getattr(mod, "EXHAUSTIVE", False)),
            parts={
                k: dict(
                    evaluations=v["evaluations"],
                    distinct_nontrivial=len(v["distinct_nontrivial"]),
                    shards=v["shards"],
                    wall_s_max=round(v["wall_max"], 1),
                )
                for k, v in per_part.items()
            },
            regressions_replayed=reg_evals,
            classes=dict(sorted(classes_all.items())),
            rejected_by_contract=int(rejected),
            known_finding_hits={k: int(v) for k, v in known_seen.items()},
            inconclusive_remainder=bool(inconclusive),
            notes=notes,
        ),
        assumptions=list(mod.ASSUMPTIONS),
        wall_s=round(wall, 2),
        violations=len(violations),
    )
    if not only_parts and not os.environ.get("VP_NO_EVIDENCE"):
        os.makedirs(os.path.join(ROOT, "evidence"), exist_ok=True)
        with open(os.path.join(ROOT, "evidence", f"{prop_id}.json"), "w") as fh:
            json.dump(evidence, fh, indent=1, default=_json_default)
            fh.write("\n")

    for ln in lines:
        print(ln)
    summary = (
        f"[{prop_id}] tier={tier} seed={seed} evaluations={total_evals} "
        f"distinct_nontrivial={len(nontrivial_all)} violations={len(violations)} "
        f"known={sum(known_seen.values())} rejected={rejected} "
        f"inconclusive={inconclusive} wall={wall:.1f}s"
    )
    print(summary)
    for k, v in per_part.items():
        print(
            f"   part {k}: evals={v['evaluations']} nontrivial={len(v['distinct_nontrivial'])} "
            f"shards={v['shards']} wall_max={v['wall_max']:.1f}s"
        )
    if harness_errors:
        for h in harness_errors:
            print("HARNESS-ERROR:", h, file=sys.stderr)
        if not violations:
            return 2
    return 1 if violations else 0
